import Lm.Inv.C12VisitList
import Lm.Inv.C12Old
import Lm.Inv.C12Dtor
/-!
# C12 — Queue, stack, list keep their order discipline under all ops and iterators

Property theorems only.  Models: `Lm.Struct.{Chain,Queue,Stack,ListM}` (linked chains with node
identities, the queue's `tail` pointer, iterator links, transcribed from `Lib/structs/{queue,stack,
list}.c` after the D-12a / D-12b fixes; tied to the compiled library by the correspondence check).
Spec: the array machines of `Lm.Spec.C12` (content = plain list, iterator = cursor index).

Histories: every finite sequence of API calls on one container handle and one iterator handle,
subject to the iterator-invalidation rule `okRun` (while an iterator is live the container is
modified only through it — or, for the queue, by `enq`, which never touches a node an iterator can
point into; `free` abandons an iterator).  NULL handles (calls after `free`, iterator
calls without / after the end of an iteration) and NULL data are part of the histories.
-/
namespace Lm.Props.C12
open Lm.Struct Lm.Spec.C12

/-! ## Well-formedness is preserved by every operation, iterator operations at every position included -/

/-- Queue: after every history the chain is well formed and **the tail pointer names the last node**
(this is what D-12a broke), whatever was removed through iterators and wherever. -/
theorem C12_queue_wellformed (dtor : Bool) (ops : List Queue.Op) (h : Queue.okRun (Queue.new dtor) ops = true) :
    WellFormed .queue (Queue.run (Queue.new dtor) ops) :=
  wellFormed_of_R (Queue.run_R ops (Queue.init_R dtor) h).1

theorem C12_stack_wellformed (dtor : Bool) (ops : List Stack.Op) (h : Stack.okRun (Stack.new dtor) ops = true) :
    WellFormed .stack (Stack.run (Stack.new dtor) ops) :=
  wellFormed_of_R (Stack.run_R ops (Stack.init_R dtor) h).1

theorem C12_list_wellformed (eq : Val → Val → Bool) (dtor cmp : Bool) (ops : List ListM.Op)
    (h : ListM.okRun eq (ListM.new dtor cmp) ops = true) :
    WellFormed .list (ListM.run eq (ListM.new dtor cmp) ops) :=
  wellFormed_of_R (ListM.run_R eq ops (ListM.init_R dtor cmp) h).1

/-! ## Refinement: the linked structures behave as the array machines

For every history the chain model returns the same value for every call, produces the same
destructor / iterator-position / callback events, and ends with the same content as the array
machine, in which: `enq` appends and `deq`/`peek`/`rm` take the first element (FIFO); `push`
prepends and `pop`/`peek`/`rm` take the first element (LIFO); `ins` adds one element leaving the
others in order, `find`/`rm` hit the first element with `cmp = 0` or the same pointer; an iterator
is a cursor index; the destructor is called exactly for the elements dropped by
`rm`/`clear`/`free`/`it rm` and never for the ones returned by `deq`/`pop`. -/

theorem C12_queue_refines_fifo (dtor : Bool) (ops : List Queue.Op) (h : Queue.okRun (Queue.new dtor) ops = true) :
    Queue.trace (Queue.new dtor) ops = Spec.C12.Queue.trace (Spec.C12.Queue.init dtor) ops ∧
    content (Queue.run (Queue.new dtor) ops) = (Spec.C12.Queue.run (Spec.C12.Queue.init dtor) ops).xs ∧
    (Queue.run (Queue.new dtor) ops).log.map absEv = (Spec.C12.Queue.run (Spec.C12.Queue.init dtor) ops).out := by
  have := Queue.run_R ops (Queue.init_R dtor) h
  exact ⟨this.2, content_of_R this.1⟩

theorem C12_stack_refines_lifo (dtor : Bool) (ops : List Stack.Op) (h : Stack.okRun (Stack.new dtor) ops = true) :
    Stack.trace (Stack.new dtor) ops = Spec.C12.Stack.trace (Spec.C12.Stack.init dtor) ops ∧
    content (Stack.run (Stack.new dtor) ops) = (Spec.C12.Stack.run (Spec.C12.Stack.init dtor) ops).xs ∧
    (Stack.run (Stack.new dtor) ops).log.map absEv = (Spec.C12.Stack.run (Spec.C12.Stack.init dtor) ops).out := by
  have := Stack.run_R ops (Stack.init_R dtor) h
  exact ⟨this.2, content_of_R this.1⟩

/-- for every comparator `eq` (no assumption on it at all) -/
theorem C12_list_refines_multiset (eq : Val → Val → Bool) (dtor cmp : Bool) (ops : List ListM.Op)
    (h : ListM.okRun eq (ListM.new dtor cmp) ops = true) :
    ListM.trace eq (ListM.new dtor cmp) ops = Spec.C12.ListM.trace eq (Spec.C12.ListM.init dtor cmp) ops ∧
    content (ListM.run eq (ListM.new dtor cmp) ops) = (Spec.C12.ListM.run eq (Spec.C12.ListM.init dtor cmp) ops).xs ∧
    (ListM.run eq (ListM.new dtor cmp) ops).log.map absEv = (Spec.C12.ListM.run eq (Spec.C12.ListM.init dtor cmp) ops).out := by
  have := ListM.run_R eq ops (ListM.init_R dtor cmp) h
  exact ⟨this.2, content_of_R this.1⟩

/-- What the list machine's `ins` and `rm`/`find` mean, said directly: an insertion adds exactly one
element and leaves the others in their order (erasing it again gives the old list back); a removal
leaves the others in their order; the element hit by `find`/`rm` is the *first* one that the
comparator calls equal or that is the same pointer. -/
theorem C12_list_ops_stable (eq : Val → Val → Bool) (cmp : Bool) (xs : List Val) (i : Nat) (v : Val) :
    (xs.insertIdx i v).eraseIdx i = xs ∧
    (i ≤ xs.length → (xs.insertIdx i v).Perm (v :: xs)) ∧
    (xs.eraseIdx i).Sublist xs ∧
    (∀ (h : xs.findIdx (Spec.C12.ListM.hits eq cmp v) < xs.length),
        Spec.C12.ListM.hits eq cmp v xs[xs.findIdx (Spec.C12.ListM.hits eq cmp v)] = true) ∧
    (∀ j (h : j < xs.findIdx (Spec.C12.ListM.hits eq cmp v)),
        Spec.C12.ListM.hits eq cmp v (xs[j]'(Nat.lt_of_lt_of_le h List.findIdx_le_length)) = false) :=
  ⟨List.eraseIdx_insertIdx_self v, fun h => List.perm_insertIdx v xs h, List.eraseIdx_sublist xs i,
   fun _ => List.findIdx_getElem, fun _ h => List.not_of_lt_findIdx h⟩

/-- First in, first out, said directly: in a history of `enq`/`deq`/`peek`/`len` calls the pointers
handed back by `deq`, in the order of the calls, followed by the content of the queue, are exactly
the pointers enqueued, in the order of the `enq` calls. -/
theorem C12_queue_fifo_order (dtor : Bool) (ops : List Queue.Op)
    (hp : ops.all (fun o => match o with | .enq _ | .deq | .peek | .len => true | _ => false) = true) :
    let L := Spec.C12.Queue.ledger (Spec.C12.Queue.init dtor) {} ops
    L.entered = L.handed ++ content (Queue.run (Queue.new dtor) ops) := by
  intro L
  have hok : ∀ (ops : List Queue.Op) (s : St),
      ops.all (fun o => match o with | .enq _ | .deq | .peek | .len => true | _ => false) = true → s.itr = none →
      Queue.okRun s ops = true ∧ (Queue.run s ops).itr = none := by
    intro ops
    induction ops with
    | nil => intro s _ hi; exact ⟨rfl, hi⟩
    | cons o os ih =>
      intro s hp hi
      simp only [List.all_cons, Bool.and_eq_true] at hp
      have hi' : (Queue.step s o).1.itr = none := by
        cases o <;> simp at hp
        · simp only [Lm.Struct.Queue.step, Queue.enqueue]; split <;> (try split) <;> exact hi
        · simp only [Lm.Struct.Queue.step, Queue.dequeue]; split <;> (try split) <;> (try split) <;> exact hi
        · simp only [Lm.Struct.Queue.step, Lm.Struct.peek]; split <;> (try split) <;> (try split) <;> exact hi
        · exact hi
      have := ih (Queue.step s o).1 hp.2 hi'
      exact ⟨by simp [Queue.okRun, Queue.okOp, hi, this.1], by simpa [Lm.Struct.Queue.run] using this.2⟩
  have hr := C12_queue_refines_fifo dtor ops (hok ops _ hp rfl).1
  rw [hr.2.1]
  -- on the array machine
  have key : ∀ (ops : List Queue.Op) (a : ASt) (L : Ledger),
      ops.all (fun o => match o with | .enq _ | .deq | .peek | .len => true | _ => false) = true →
      L.entered = L.handed ++ a.xs →
      (Spec.C12.Queue.ledger a L ops).entered = (Spec.C12.Queue.ledger a L ops).handed ++ (Spec.C12.Queue.run a ops).xs := by
    intro ops
    induction ops with
    | nil => intro a L _ h; exact h
    | cons o os ih =>
      intro a L hp h
      simp only [List.all_cons, Bool.and_eq_true] at hp
      simp only [Spec.C12.Queue.ledger, Spec.C12.Queue.run, List.foldl_cons]
      apply ih _ _ hp.2
      cases o <;> simp at hp
      · simp only [Spec.C12.Queue.step, Spec.C12.Queue.ledgerStep]
        split
        · simp [h]
        · exact h
      · simp only [Spec.C12.Queue.step, Spec.C12.Queue.ledgerStep, takeFirst]
        cases hx : a.xs with
        | nil => simpa [hx] using h
        | cons x r => simp [h, hx]
      · simp only [Spec.C12.Queue.step, Spec.C12.Queue.ledgerStep, Spec.C12.peek]; split <;> exact h
      · exact h
  exact key ops _ _ hp rfl

/-- Lengths are exact: what `m_*_len` reports is the number of elements (or `-EINVAL` for NULL). -/
theorem C12_len_exact {k : Kind} {s : St} (h : WellFormed k s) :
    cLen s.obj = (match s.obj with | some _ => ((content s).length : Int) | none => EINVAL) := by
  cases ho : s.obj with
  | none => rfl
  | some q => simp [cLen, content, ho, (h.cont q ho).1, vals]

/-! ## Iterators visit every remaining element exactly once, in container order

`visited log` lists the *node identities* an iterator was positioned on by `itr_new` / `itr_next`
(the harness prints the value of each as a `cur` line, so this sequence is compared with the
library on every run).  An iteration is `it new` followed by any interleaving of
`it next / it get / it set / it rm` (list: also `it ins`) and calls that do not modify the container
(`Op.inIteration`); it starts in any reachable state with a non-empty container. -/

/-- Queue: whatever is read, replaced or removed through the iterator and wherever (first, middle,
last element), the nodes visited are exactly the first `n` nodes the queue had when the iterator
was created, in queue order, each once; when the iterator has reached the end (`itr = none`) that
is all of them.  The queue then consists of those visited nodes that were not removed, in their
old order, followed by the nodes not yet visited. -/
theorem C12_queue_iterator_visits_each_once (dtor : Bool) (before : List Queue.Op)
    (hb : Queue.okRun (Queue.new dtor) before = true) (q0 : Cont)
    (h0 : (Queue.run (Queue.new dtor) before).obj = some q0) (hne : q0.chain ≠ [])
    (ops : List Queue.Op) (hops : ops.all Queue.Op.inIteration = true) :
    let s0 := Queue.run (Queue.new dtor) before
    let s := Queue.run (Queue.step s0 .itNew).1 ops
    ∃ n q, visited s.log = visited s0.log ++ (ids q0.chain).take n ∧ (s.itr = none → n = (ids q0.chain).length) ∧
      s.obj = some q ∧ (ids q.chain).Sublist (ids q0.chain) ∧
      ∃ kept, kept.Sublist ((ids q0.chain).take n) ∧ ids q.chain = kept ++ (ids q0.chain).drop n := by
  intro s0 s
  have hR := (Queue.run_R before (Queue.init_R dtor) hb).1
  exact (Queue.vis_run ops (vis_itrNew hR h0 hne) hops).result

/-- Stack: the same statement. -/
theorem C12_stack_iterator_visits_each_once (dtor : Bool) (before : List Stack.Op)
    (hb : Stack.okRun (Stack.new dtor) before = true) (q0 : Cont)
    (h0 : (Stack.run (Stack.new dtor) before).obj = some q0) (hne : q0.chain ≠ [])
    (ops : List Stack.Op) (hops : ops.all Stack.Op.inIteration = true) :
    let s0 := Stack.run (Stack.new dtor) before
    let s := Stack.run (Stack.step s0 .itNew).1 ops
    ∃ n q, visited s.log = visited s0.log ++ (ids q0.chain).take n ∧ (s.itr = none → n = (ids q0.chain).length) ∧
      s.obj = some q ∧ (ids q.chain).Sublist (ids q0.chain) ∧
      ∃ kept, kept.Sublist ((ids q0.chain).take n) ∧ ids q.chain = kept ++ (ids q0.chain).drop n := by
  intro s0 s
  have hR := (Stack.run_R before (Stack.init_R dtor) hb).1
  exact (Stack.vis_run ops (vis_itrNew hR h0 hne) hops).result

/-- List (the iterator can also insert, and after a removal it can remove elements it has not
visited): no node is ever visited twice; when the iterator has reached the end, every node that was
in the list when the iterator was created and is still there has been visited, and the visited nodes
still present stand in the list in the order in which they were visited. -/
theorem C12_list_iterator_visits_each_once (eq : Val → Val → Bool) (dtor cmp : Bool) (before : List ListM.Op)
    (hb : ListM.okRun eq (ListM.new dtor cmp) before = true) (q0 : Cont)
    (h0 : (ListM.run eq (ListM.new dtor cmp) before).obj = some q0) (hne : q0.chain ≠ [])
    (ops : List ListM.Op) (hops : ops.all ListM.Op.inIteration = true) :
    let s0 := ListM.run eq (ListM.new dtor cmp) before
    let s := ListM.run eq (ListM.step eq s0 .itNew).1 ops
    ∃ vis q, visited s.log = visited s0.log ++ vis ∧ s.obj = some q ∧ vis.Nodup ∧
      (s.itr = none →
        (∀ x ∈ ids q.chain, x ∈ ids q0.chain → x ∈ vis) ∧
        (ids q.chain).filter (fun x => decide (x ∈ vis)) = vis.filter (fun x => decide (x ∈ ids q.chain))) := by
  intro s0 s
  have hR := (ListM.run_R eq before (ListM.init_R dtor cmp) hb).1
  exact (ListM.lvis_run eq ops (ListM.lvis_itrNew hR h0 hne) hops).result

/-! ## The destructor runs exactly once per dropped element, never for a returned one

`Ledger` (computed from the history with the array machine) records what the caller did: the
pointers it stored (`enq`/`push`/`ins`/`it ins`, and the new pointer of a successful `it set`), the
pointers handed back to it by `deq`/`pop`, and the pointers it overwrote with `it set`.
`destroyed` are the arguments of the destructor calls of the chain model, in order. -/

/-- Queue with a destructor: for every pointer value, counted with multiplicity,
stored = still inside + handed back + overwritten by `it set` + destroyed. -/
theorem C12_queue_destructor_exactly_once (ops : List Queue.Op) (h : Queue.okRun (Queue.new true) ops = true) (y : Val) :
    let s := Queue.run (Queue.new true) ops
    let L := Spec.C12.Queue.ledger (Spec.C12.Queue.init true) {} ops
    L.entered.count y = (content s).count y + L.handed.count y + L.over.count y + (destroyed (s.log.map absEv)).count y := by
  intro s L
  have hr := C12_queue_refines_fifo true ops h
  have hb := Spec.C12.Queue.bal_run (L := {}) ops (a := Spec.C12.Queue.init true) ⟨by intro y; rfl, rfl⟩
  rw [hr.2.1, hr.2.2]
  exact hb.1 y

theorem C12_stack_destructor_exactly_once (ops : List Stack.Op) (h : Stack.okRun (Stack.new true) ops = true) (y : Val) :
    let s := Stack.run (Stack.new true) ops
    let L := Spec.C12.Stack.ledger (Spec.C12.Stack.init true) {} ops
    L.entered.count y = (content s).count y + L.handed.count y + L.over.count y + (destroyed (s.log.map absEv)).count y := by
  intro s L
  have hr := C12_stack_refines_lifo true ops h
  have hb := Spec.C12.Stack.bal_run (L := {}) ops (a := Spec.C12.Stack.init true) ⟨by intro y; rfl, rfl⟩
  rw [hr.2.1, hr.2.2]
  exact hb.1 y

theorem C12_list_destructor_exactly_once (eq : Val → Val → Bool) (cmp : Bool) (ops : List ListM.Op)
    (h : ListM.okRun eq (ListM.new true cmp) ops = true) (y : Val) :
    let s := ListM.run eq (ListM.new true cmp) ops
    let L := Spec.C12.ListM.ledger eq (Spec.C12.ListM.init true cmp) {} ops
    L.entered.count y = (content s).count y + L.handed.count y + L.over.count y + (destroyed (s.log.map absEv)).count y := by
  intro s L
  have hr := C12_list_refines_multiset eq true cmp ops h
  have hb := Spec.C12.ListM.bal_run eq (L := {}) ops (a := Spec.C12.ListM.init true cmp) ⟨by intro y; rfl, rfl⟩
  rw [hr.2.1, hr.2.2]
  exact hb.1 y

/-- Without a destructor nothing is ever destroyed (all three containers). -/
theorem C12_no_destructor_no_calls :
    (∀ ops, Queue.okRun (Queue.new false) ops = true → destroyed ((Queue.run (Queue.new false) ops).log.map absEv) = []) ∧
    (∀ ops, Stack.okRun (Stack.new false) ops = true → destroyed ((Stack.run (Stack.new false) ops).log.map absEv) = []) ∧
    (∀ eq cmp ops, ListM.okRun eq (ListM.new false cmp) ops = true →
      destroyed ((ListM.run eq (ListM.new false cmp) ops).log.map absEv) = []) := by
  refine ⟨?_, ?_, ?_⟩
  · intro ops h
    rw [(C12_queue_refines_fifo false ops h).2.2]
    exact (Spec.C12.Queue.nod_run ops (a := Spec.C12.Queue.init false) ⟨rfl, rfl⟩).2
  · intro ops h
    rw [(C12_stack_refines_lifo false ops h).2.2]
    exact (Spec.C12.Stack.nod_run ops (a := Spec.C12.Stack.init false) ⟨rfl, rfl⟩).2
  · intro eq cmp ops h
    rw [(C12_list_refines_multiset eq false cmp ops h).2.2]
    exact (Spec.C12.ListM.nod_run eq ops (a := Spec.C12.ListM.init false cmp) ⟨rfl, rfl⟩).2

/-! ## Non-vacuity: concrete histories -/

/-- queue: remove the last element through an iterator, keep using the queue (the D-12a scenario) -/
def demoQ : List Queue.Op :=
  [.enq 5, .enq 6, .enq 7, .itNew, .itNext, .itSet 9, .itNext, .itRm, .itNext, .enq 8, .deq, .rm, .deq, .deq, .len]

example : Queue.okRun (Queue.new true) demoQ = true := by decide
example : Queue.trace (Queue.new true) demoQ =
    [.int 0, .int 0, .int 0, .handle true, .int 0, .int 0, .int 0, .int 0, .int 0, .int 0,
     .ptr 5, .int 0, .ptr 8, .ptr 0, .int 0] := by decide
example : (Queue.run (Queue.new true) demoQ).log =
    [.cur (some ⟨0, 5⟩), .cur (some ⟨1, 6⟩), .cur (some ⟨2, 7⟩), .dtor 7, .dtor 9] := by decide

example : Spec.C12.Queue.ledger (Spec.C12.Queue.init true) {} demoQ =
    { entered := [5, 6, 7, 9, 8], handed := [5, 8], over := [6] } := by decide
example : destroyed ((Queue.run (Queue.new true) demoQ).log.map absEv) = [7, 9] := by decide

/-- list with comparator `v % 8`: insertion through the iterator, removal of inserted and current -/
def demoL : List ListM.Op :=
  [.ins 1, .ins 2, .ins 9, .itNew, .itIns 5, .itNext, .itRm, .itIns 4, .itNext, .itNext, .find 17, .rm 17, .len]

example : ListM.okRun (fun a b => a % 8 == b % 8) (ListM.new true true) demoL = true := by decide
example : content (ListM.run (fun a b => a % 8 == b % 8) (ListM.new true true) demoL) = [5, 4, 2] := by decide
example : visited (ListM.run (fun a b => a % 8 == b % 8) (ListM.new true true) demoL).log = [2, 0, 1] := by decide

/-! ## The unrepaired code does not satisfy the theorems (the invariants are not vacuous)

With `m_queue_itr_remove` / `m_list_itr_next` as they were before the fix commits
(`Lm.Inv.C12Old`), legal histories break the well-formedness invariant resp. visit an element twice. -/

/-- D-12a: after removing the last of two elements through the iterator the tail pointer is NULL
although the queue is not empty; the next enqueue is lost and the second dequeue dereferences NULL -/
theorem C12_D12a_unfixed_fails :
    let ops : List Queue.Op := [.enq 1, .enq 2, .itNew, .itNext, .itRm, .itNext, .enq 3, .deq, .deq]
    Queue.okRun (Queue.new false) ops = true ∧
    (∃ q, (Queue.runOld (Queue.new false) (ops.take 5)).obj = some q ∧ q.chain ≠ [] ∧ q.tail = none) ∧
    (Queue.runOld (Queue.new false) ops).fault = true ∧
    (Queue.run (Queue.new false) ops).fault = false := by
  refine ⟨by decide, ⟨_, rfl, by decide, by decide⟩, by decide, by decide⟩

/-- D-12b: after an insertion through the iterator the old `m_list_itr_next` visits node 0 twice -/
theorem C12_D12b_unfixed_fails :
    let ops : List ListM.Op := [.ins 1, .itNew, .itIns 2, .itNext]
    let eq : Val → Val → Bool := fun a b => a == b
    ListM.okRun eq (ListM.new false false) ops = true ∧
    visited (ListM.runOld eq (ListM.new false false) ops).log = [0, 0] ∧
    visited (ListM.run eq (ListM.new false false) ops).log = [0] := by
  refine ⟨by decide, by decide, by decide⟩

end Lm.Props.C12
