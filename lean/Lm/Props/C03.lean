import Lm.Inst.CoreTie
import Lm.Props.C13
/-! # C03 — Event loop: events reach their owner; loop ends only for stated reasons

Partial: which sources become ready, and when, is the kernel's choice; the statements hold for every recorded poll
result.  errno non-interference holds by construction in the model (no program reads `St.errno`; the `errno` line
only sets that field) and is tied to the code by the correspondence runs, which leave errno dirty in callbacks. -/
namespace Lm.Props.C03
open Lm.Core

/-- an event of a source that left the poll set (its module was paused, stopped or deregistered, or the source was
deregistered by an earlier callback of the same batch) is not delivered: the entry is skipped without any effect -/
theorem C03_stale_entry_skipped (s : St) (i : SrcId) (x : Src) (hx : s.srcs[i]? = some x) (hp : x.polled = false) :
    runP (recvOneP (.src i)) s = (s, .inl 0) := by
  simp [recvOneP, hx, hp]

/-- a one-shot source is taken out of its module's registry before its event is handed over, so it fires at most once -/
theorem C03_oneshot_removed_first (s : St) (i : SrcId) (x : Src) (hx : s.srcs[i]? = some x) (hp : x.polled = true) (ho : x.oneshot = true) :
    runP (recvOneP (.src i)) s =
      runP (do pushEvtP x.owner { kind := x.kind, key := x.key, src := some i }; pure 1) (removeSrc s x.owner i) := by
  simp [recvOneP, hx, hp, ho]

/-- the event goes to the module that registered the source, carrying the user data given at registration
(`C13_enqueued_in_arrival_order` gives the stamped user data) -/
theorem C03_event_goes_to_owner (s : St) (i : SrcId) (x : Src) (hx : s.srcs[i]? = some x) (hp : x.polled = true) (ho : x.oneshot = false) :
    runP (recvOneP (.src i)) s = runP (do pushEvtP x.owner { kind := x.kind, key := x.key, src := some i }; pure 1) s := by
  simp [recvOneP, hx, hp, ho]

/-- the blocking loop keeps receiving only while no quit was requested and some module is RUNNING -/
theorem C03_loop_exit_conditions (n : Nat) (s : St) (c : Ctx) (hc : s.ctx = some c) (h : c.quit = true ∨ c.running = 0) :
    runP (loopBody c.id (n + 1)) s = (s, .inl ()) := by
  unfold loopBody
  rcases h with h | h <;> simp [hc, h]

/-- a quit request is recorded with exactly the requested code (an 8 bit value) and nothing else changes -/
theorem C03_quit_records_code (s : St) (c : Ctx) (code : Nat) (hm : mctx s = some c) (hl : c.state = .looping) :
    runP (apiQuit code) s = (s.updCtx (fun c => { c with quit := true, quitCode := code % 256 }), .inl 0) := by
  simp [apiQuit, hm, hl]

/-- driving the context through dispatch uses the very same three programs as the blocking loop:
the first call starts (unless the context is being torn down or its loop is just being stopped: then it is refused),
a call with a quit request pending (or no RUNNING module) stops, every other call receives -/
theorem C03_dispatch_is_the_loop_unrolled (s : St) (c : Ctx) (hm : mctx s = some c) :
    (c.state = .idle → c.destroying = false → c.stopping = false → runP apiDispatch s = runP loopStartP s) ∧
    (c.state = .idle → (c.destroying = true ∨ c.stopping = true) → Refuses apiDispatch s EINVAL) ∧
    (c.state = .looping → (c.quit = true ∨ c.running = 0) → runP apiDispatch s = runP (loopStopP c.id) s) ∧
    (c.state = .looping → c.quit = false → c.running ≠ 0 →
      runP apiDispatch s = runP (do let b ← nextBatch; recvEventsP b) s) := by
  refine ⟨fun h1 h2 h3 => ?_, fun h1 h2 => ?_, fun h1 h2 => ?_, fun h1 h2 h3 => ?_⟩
  · simp [apiDispatch, hm, h1, h2, h3]
  · rcases h2 with h2 | h2 <;> simp [Refuses, apiDispatch, hm, h1, h2]
  · rcases h2 with h2 | h2 <;> simp [apiDispatch, hm, h1, h2]
  · simp [apiDispatch, hm, h1, h2, h3]

/-- the `errno` line of a script changes nothing but the errno cell -/
theorem C03_errno_line_only_sets_errno (c : Cfg) (e : Nat) : step c (.errno e) = { c with st := { c.st with errno := e } } := rfl


/-- **A one-shot subscription fires at most once** (D-03c).  Messages are matched against subscriptions when they are
published; a message is dropped when it is read exactly if the subscription it was matched by is one-shot and has left
the module's table meanwhile (it fired, or was removed); consuming a one-shot subscription takes it out of the table. -/
theorem C03_oneshot_subscription_expires (s : St) (md : Mod) (msg : Msg) :
    oneshotExpired s md msg = true ↔
      ∃ i src, msg.sub = some i ∧ s.srcs[i]? = some src ∧ src.oneshot = true ∧ i ∉ md.subs := by
  unfold oneshotExpired
  constructor
  · intro h
    cases hs : msg.sub with
    | none => simp [hs] at h
    | some i =>
      cases hx : s.srcs[i]? with
      | none => simp [hs, hx] at h
      | some src =>
        simp [hs, hx] at h
        exact ⟨i, src, rfl, hx, h.1, by simpa using h.2⟩
  · rintro ⟨i, src, h1, h2, h3, h4⟩
    simp [h1, h2, h3, h4]

/-- removing a subscription (what consuming a one-shot one does) takes it out of the module's table: every later message
that had been matched by it finds it expired -/
theorem C03_consumed_oneshot_is_expired (s : St) (m : ModId) (md : Mod) (i : SrcId) (src : Src) (msg : Msg)
    (hm : s.mods[m]? = some md) (hs : msg.sub = some i) (hi : s.srcs[i]? = some src) (ho : src.oneshot = true) :
    ∃ md', (s.updMod m fun md => { md with srcs := md.srcs.filter (· != i), subs := md.subs.filter (· != i) }).mods[m]? = some md' ∧
      i ∉ md'.subs := by
  refine ⟨{ md with srcs := md.srcs.filter (· != i), subs := md.subs.filter (· != i) }, ?_, by simp⟩
  have hlt : m < s.mods.length := by
    rcases Nat.lt_or_ge m s.mods.length with h | h
    · exact h
    · rw [List.getElem?_eq_none h] at hm; cases hm
  simp only [St.updMod, hm, List.getElem?_set, hlt, if_true]

/-- task sources (and thresholds) are one-shot whatever flags they were registered with: the registry forces the flag, so
`C03_oneshot_removed_first` applies to every task event — a finished task is handed over once and its source is gone -/
theorem C03_task_sources_are_oneshot (x : Src) (h : x.kind = .task ∨ x.kind = .thresh) : (forceOneshot x).oneshot = true := by
  unfold forceOneshot
  rcases h with h | h <;> simp [h]

/-- tie A: the guard prefixes of the entry points this property is about, re-extracted from the source on every run,
are the ones the model transcribes (`Lm.Inst.CoreTie`) -/
theorem C03_guards_in_source :
    Lm.Inst.CoreTie.slice Lm.Generated.CoreGuards.guards ["m_ctx_loop", "m_ctx_dispatch", "m_ctx_quit"] = Lm.Inst.CoreTie.slice Lm.Inst.CoreTie.expected ["m_ctx_loop", "m_ctx_dispatch", "m_ctx_quit"] := by decide

end Lm.Props.C03
