import Lm.Struct.Map
import Lm.Struct.MapGen
import Lm.Inv.Map
import Lm.Inv.MapOps
import Lm.Inv.MapGen
import Lm.Inv.MapIter
import Lm.Inv.MapRun
import Lm.Inv.MapAcct
/-!
# C05 — the string-keyed map behaves as a dictionary for all key sets and operation orders

Property theorems only (helper lemmas: `Lm.Inv.Map`, `Lm.Inv.MapOps`; side conditions on the
regenerated fragments: `Lm.Inv.MapGen`).  The model `Lm.Struct.Map` mirrors `Lib/structs/map.c`
after the `fix:` commits; every theorem is for **every** home-slot function (so for every hash
function, every set of colliding keys, every cluster wrapping the end of the table), every table size
the code can reach, and every well-formed map — and `C05_wf_reachable` shows that every operation
sequence only reaches well-formed maps.

The dictionary a map stands for is `content m` (its live entries); `m.length` is what `m_map_len`
returns.
-/
namespace Lm.Props.C05
open Lm.Struct.Map
variable {κ : Type} [DecidableEq κ]

/-! ## Tie A: the fragments regenerated from `map.c` meet the side conditions of all proofs below -/

/-- `MAP_SIZE_DEFAULT`, `MAP_PROBE_LEN`, `MAP_SIZE_MOD`, the load rule and the back-shift decision
as they are in the source today: probe length = size/2, home slot below the size, one slot stays
free, "move iff the home slot is not in (hole, idx]" for every power-of-two size. -/
theorem C05_fragments_good (bytes : κ → List (BitVec 8)) : (genParams bytes).Good :=
  genParams_good bytes

/-! ## The dictionary view -/

/-- The live entries have pairwise different keys and `m_map_len` is their number. -/
theorem C05_len (P : Params κ) (m : Map κ) (hwf : WF P m) :
    ((content m).map (·.1)).Nodup ∧ m.length = (content m).length :=
  ⟨nodup_keysOf P m.cells hwf.tbl, hwf.len⟩

/-- `m_map_get` returns the value stored under the key, and `NULL` exactly for keys that are not
live — whatever collides with what, wherever the cluster lies. -/
theorem C05_get (P : Params κ) (hP : P.Good) (m : Map κ) (hwf : WF P m) (k : κ) :
    (∀ v, get P m k = some v ↔ (k, v) ∈ content m) ∧
    (get P m k = none ↔ ∀ v, (k, v) ∉ content m) ∧
    (contains P m k = true ↔ ∃ v, (k, v) ∈ content m) := by
  refine ⟨fun v => ?_, ?_, ?_⟩
  · rw [get_spec P hP m hwf, has_iff_mem]; rfl
  · rw [get_none_spec P hP m hwf]; simp only [has_iff_mem]; rfl
  · rw [contains_spec P hP m hwf]; simp only [has_iff_mem]; rfl

/-- `m_map_put`: a `NULL` value is refused; otherwise a new key is added (`length + 1`, no
destructor), an existing key is replaced only with `ALLOW_UPDATE` (the old value is destroyed once,
unless it is the same pointer) and refused with `-EPERM` (`-1`) without any effect otherwise; it can
fail with `-ENOMEM` (`-12`) only when the allocator fails (`oom`, or a table beyond what `calloc` can
deliver), again without effect on the contents.  The key copy of `KEY_DUP` is allocated once and
released again exactly when no new entry was created.  The map stays well-formed (also across the
growth of the table). -/
theorem C05_put (P : Params κ) (hP : P.Good) (m : Map κ) (hwf : WF P m) (k : κ) (v : Nat) :
    let r := put P m k v
    WF P r.1 ∧ SameFlags m r.1 ∧
    ((v = 0 ∧ r = (m, [], -22)) ∨
     (v ≠ 0 ∧ ∃ evs : List (Ev κ),
        r.2.1 = (if (m.dup || m.autofree) then
                  [Ev.kalloc k] ++ evs ++ (if r.2.2 ≠ 0 ∨ r.1.length = m.length then [Ev.kfree k] else [])
                else evs) ∧
        (-- success
         (r.2.2 = 0 ∧ (∀ e, e ∈ content r.1 ↔ e = (k, v) ∨ (e ∈ content m ∧ e.1 ≠ k)) ∧
            (((∀ w, (k, w) ∉ content m) ∧ r.1.length = m.length + 1 ∧ evs = []) ∨
             (∃ w, (k, w) ∈ content m ∧ m.update = true ∧ r.1.length = m.length ∧
                evs = if m.dtor && w != v then [Ev.dtor w] else []))) ∨
         -- no update allowed
         (r.2.2 = -1 ∧ (∀ e, e ∈ content r.1 ↔ e ∈ content m) ∧ r.1.length = m.length ∧ evs = [] ∧
            m.update = false ∧ ∃ w, (k, w) ∈ content m) ∨
         -- allocation failure
         (r.2.2 = -12 ∧ (∀ e, e ∈ content r.1 ↔ e ∈ content m) ∧ r.1.length = m.length ∧ evs = [] ∧
            (m.oom = true ∨ P.maxSize < 4 * m.size))))) := by
  intro r
  obtain ⟨h1, h2, h3⟩ := put_spec P hP m hwf k v
  refine ⟨h1, h2, ?_⟩
  rcases h3 with h3 | ⟨hv, r0, hspec, e1, e2, e3⟩
  · left; exact h3
  · right
    refine ⟨hv, r0.2.1, ?_, ?_⟩
    · show (put P m k v).2.1 = _
      rw [e3, e1, e2]
    · show ((put P m k v).2.2 = 0 ∧ _) ∨ ((put P m k v).2.2 = -1 ∧ _) ∨ ((put P m k v).2.2 = -12 ∧ _)
      rw [e1, e2]
      simp only [content, ← has_iff_mem]
      rcases hspec with ⟨a, b, c⟩ | ⟨a, b, c, d, e⟩ | ⟨a, b, c, d⟩
      · left; exact ⟨a, b, c⟩
      · right; left; exact ⟨a, b.1, b.2, c, d, e⟩
      · right; right; exact ⟨a, b.1, b.2, c, d⟩

/-- `m_map_remove` deletes exactly the named entry — every other live entry stays reachable,
including those that the back-shift moves — destroys its value once and releases its key when the
map owns it; for a key that is not live it fails (`-ENOENT`, or `-EINVAL` on an empty map) without
effect. -/
theorem C05_remove (P : Params κ) (hP : P.Good) (m : Map κ) (hwf : WF P m) (k : κ) :
    let r := remove P m k
    WF P r.1 ∧ SameFlags m r.1 ∧
    ((∃ v, (k, v) ∈ content m ∧ r.2.2 = 0 ∧ r.1.length + 1 = m.length ∧ r.1.size = m.size ∧
        (∀ e, e ∈ content r.1 ↔ (e ∈ content m ∧ e.1 ≠ k)) ∧
        r.2.1 = (if m.autofree then [Ev.kfree k] else []) ++ (if m.dtor then [Ev.dtor v] else [])) ∨
     ((∀ v, (k, v) ∉ content m) ∧ r.1 = m ∧ r.2.1 = [] ∧ r.2.2 = if m.length = 0 then -22 else -2)) := by
  intro r
  have := remove_spec P hP m hwf k
  simp only [content, ← has_iff_mem]
  exact this

/-- Growth (`hashmap_rehash`) never fails for lack of a slot, doubles the table and keeps exactly
the live entries; it fails only when the allocator does, and then nothing changes. -/
theorem C05_rehash (P : Params κ) (hP : P.Good) (m : Map κ) (hwf : WF P m) :
    (∃ m', rehash P m = (m', 0) ∧ WF P m' ∧ m'.size = 2 * m.size ∧ m'.length = m.length ∧
        (∀ e, e ∈ content m' ↔ e ∈ content m) ∧ SameFlags m m') ∨
    (∃ m', rehash P m = (m', -12) ∧ m'.cells = m.cells ∧ m'.length = m.length ∧
        (m.oom = true ∨ P.maxSize < 2 * m.size)) := by
  rcases rehash_spec P hP m hwf with ⟨m', h1, h2, h3, h4, h5, _, _⟩ | ⟨m', h1, h2, h3, _, h5⟩
  · left
    refine ⟨m', h1, h2, h3, h4.2, ?_, h5⟩
    simp only [content, ← has_iff_mem]; exact h4.1
  · right; exact ⟨m', h1, h2, h3, h5⟩

/-- A new map is empty and well-formed. -/
theorem C05_new (P : Params κ) (hP : P.Good) (dup autofree update dtor : Bool) :
    WF P (new P dup autofree update dtor) ∧ content (new P dup autofree update dtor) = [] ∧
    (new P dup autofree update dtor).length = 0 := by
  refine ⟨WF_new P hP _ _ _ _, ?_, rfl⟩
  have := occ_replicate (κ := κ) P.sizeDefault
  unfold occ at this
  exact List.length_eq_zero_iff.mp this

/-! ## Iteration -/

/-- `m_map_iterate`, with a callback that on every visit either continues or removes the entry it
was called for (in any pattern): fails with `-EINVAL` on an empty map; otherwise returns 0 and the
callback was invoked **exactly once for every entry that was live at the start** (no entry twice, none
skipped — also when a removal back-shifts a cluster that wraps around the end of the table), exactly
the entries the callback removed are gone, and the destructor / key release ran exactly once for each
of them and for nothing else. -/
theorem C05_iterate (P : Params κ) (hP : P.Good) (m : Map κ) (hwf : WF P m)
    (cb : Nat → κ → Nat → CbAct κ) (hcb : ContRm cb) :
    let r := iterate P m cb
    (m.length = 0 ∧ r = (m, [], -22)) ∨
    (m.length ≠ 0 ∧ r.2.2 = 0 ∧ WF P r.1 ∧ SameFlags m r.1 ∧
      ((visitsOf r.2.1).map (·.1)).Nodup ∧
      (∀ e, e ∈ visitsOf r.2.1 ↔ e ∈ content m) ∧
      (∀ e, e ∈ content r.1 ↔ (e ∈ content m ∧ e.1 ∉ (rmList cb 0 (visitsOf r.2.1)).map (·.1))) ∧
      outEvs r.2.1 = (rmList cb 0 (visitsOf r.2.1)).flatMap (remEvs m)) := by
  intro r
  rcases iterate_spec P hP m hwf cb hcb with h | ⟨h0, h1, h2, h3, _, h5, h6, h7, h8⟩
  · left; exact h
  · right
    simp only [content, ← has_iff_mem]
    exact ⟨h0, h1, h2, h3, h5, h6, h7, h8⟩

/-- Iteration with the iterator API (`m_map_itr_new` / `_next` / `_get_key` / `_get_data` /
`_remove`, the loop of `m_itr_foreach`), removing any subset of the visited entries: every entry
that was live at the start is visited exactly once, exactly the removed ones are gone, each of them
released exactly once. -/
theorem C05_iterator (P : Params κ) (hP : P.Good) (m : Map κ) (hwf : WF P m) (dec : Nat → κ → Nat → Bool)
    (fuel : Nat) (hfuel : 2 * m.size < fuel) :
    let r := itrWalk P dec fuel m (itrNew m) 0
    WF P r.1 ∧ SameFlags m r.1 ∧ (r.2.1.map (·.1)).Nodup ∧
    (∀ e, e ∈ r.2.1 ↔ e ∈ content m) ∧
    (∀ e, e ∈ content r.1 ↔ (e ∈ content m ∧ e.1 ∉ (rmListB dec 0 r.2.1).map (·.1))) ∧
    r.2.2 = (rmListB dec 0 r.2.1).flatMap (remEvs m) := by
  intro r
  simp only [content, ← has_iff_mem]
  rcases itrNew_spec P m hwf with ⟨h0, h1⟩ | ⟨h0, it, h1, h2, h3, h4⟩
  · have hr : r = (m, [], []) := by show itrWalk P dec fuel m (itrNew m) 0 = _; rw [h1, itrWalk_none]
    rw [hr]
    have hempty := no_entries_of_length_zero P m hwf h0
    exact ⟨hwf, SameFlags.refl m, by simp, fun e => by simpa using hempty e, fun e => by simp [rmListB],
      by simp [rmListB]⟩
  · have hlt := h2.lt
    have hlo := h2.scan.lo
    have hroom := hwf.room
    have := itrWalk_spec P hP dec fuel m it 0 h2 h3 (by omega)
    have hr : r = itrWalk P dec fuel m (some it) 0 := by show itrWalk P dec fuel m (itrNew m) 0 = _; rw [h1]
    rw [hr]
    exact ⟨this.wf, this.flags, this.nodup, fun e => by rw [this.visits e, h4 e], this.after, this.evs⟩

/-- `m_map_clear` (and with it `m_map_free`) empties the map; every entry that was live is released
exactly once — its value destroyed once, its key released once when the map owns the keys — and
nothing else is. -/
theorem C05_clear (P : Params κ) (hP : P.Good) (m : Map κ) (hwf : WF P m) :
    let r := clear P m
    WF P r.1 ∧ SameFlags m r.1 ∧ r.1.size = m.size ∧ r.1.length = 0 ∧ content r.1 = [] ∧
    ∃ order : List (κ × Nat), r.2 = order.flatMap (remEvs m) ∧ (order.map (·.1)).Nodup ∧
      ∀ e, e ∈ order ↔ e ∈ content m := by
  intro r
  have h := clear_spec P hP m hwf
  refine ⟨h.wf, h.flags, h.size, h.len, ?_, ?_⟩
  · have := occ_zero_of_no_entries _ h.empty
    unfold occ at this
    exact List.length_eq_zero_iff.mp this
  · simp only [content, ← has_iff_mem]; exact h.evs

/-- `m_map_itr_set_data` stores the new value in the current entry and nothing else (it is a plain
store: the old value is handed back to the caller, no destructor runs); it is refused after
`m_map_itr_remove` and for a `NULL` value. -/
theorem C05_itr_set (P : Params κ) (m : Map κ) (hwf : WF P m) (it : Itr) (v : Nat) :
    let r := itrSet m it v
    WF P r.1 ∧ SameFlags m r.1 ∧ r.1.length = m.length ∧
    ((it.removed = true ∨ v = 0) → r = (m, -22)) ∧
    (it.removed = false → v ≠ 0 → ∀ k w, slot m.cells it.pos = some (k, w) →
      r.2 = 0 ∧ ∀ e, e ∈ content r.1 ↔ e = (k, v) ∨ (e ∈ content m ∧ e.1 ≠ k)) := by
  intro r
  obtain ⟨g1, g2, _, g4, _, g6, g7⟩ := itrSet_spec P m hwf it v
  simp only [content, ← has_iff_mem]
  exact ⟨g1, g2, g4, g6, g7⟩

/-! ## Every operation sequence -/

/-- Whatever sequence of put / get / contains / remove / len / clear / iterate (with *any* callback
program: continue, remove the current entry, stop, fail, remove or put another entry) / iterator
new, next, get, key, set, remove / allocation failures is applied to a new map, for any flags: the
map is well-formed after every call (so all theorems above apply to every reachable state), and
the iterator handle of the script, when there is one, is valid for the current table. -/
theorem C05_wf_reachable (P : Params κ) (hP : P.Good) (dup autofree update dtor : Bool) (ops : List (Op κ)) :
    let s := run P { map := new P dup autofree update dtor } ops
    WF P s.map ∧ ∀ it, s.itr = some it → ItrOk P s.map it := by
  intro s
  exact run_ok P hP ops _ ⟨WF_new P hP _ _ _ _, fun it h => by cases h⟩

/-- The same for the model exactly as the driver runs it: with the fragments regenerated from
`map.c`, for every key-to-bytes function (every key set). -/
theorem C05_wf_reachable_generated (bytes : κ → List (BitVec 8)) (dup autofree update dtor : Bool)
    (ops : List (Op κ)) :
    WF (genParams bytes) (run (genParams bytes) { map := new (genParams bytes) dup autofree update dtor } ops).map :=
  (C05_wf_reachable (genParams bytes) (genParams_good bytes) dup autofree update dtor ops).1

/-- The ledger of key blocks, for a map that owns its keys (`KEY_DUP` or `KEY_AUTOFREE`), at every
point of every history (any callbacks included): the blocks allocated for a key are the blocks
released plus one exactly when the key is live — a private copy is created once per stored entry,
released with it, never twice, and a copy that was not stored is released at once. -/
theorem C05_keys_balanced (P : Params κ) (hP : P.Good) (dup autofree update dtor : Bool)
    (hown : (autofree || dup) = true) (ops : List (Op κ)) (k : κ) :
    let s := run P { map := new P dup autofree update dtor } ops
    (s.log.count (Ev.kalloc k) : Int) =
      s.log.count (Ev.kfree k) + (if k ∈ (content s.map).map (·.1) then 1 else 0) := by
  intro s
  have h0 : StOk P ({ map := new P dup autofree update dtor } : St κ) :=
    ⟨WF_new P hP _ _ _ _, fun it h => by cases h⟩
  have := run_delta P hP k ops _ h0 hown
  have hl0 : live (new P dup autofree update dtor) k = 0 :=
    live_of_absent _ k (fun v => not_has_replicate _ _)
  simp only [kdelta, List.count_nil, hl0] at this
  have hl : live s.map k = if k ∈ (content s.map).map (·.1) then 1 else 0 := rfl
  rw [← hl]
  show ((run P _ ops).log.count (Ev.kalloc k) : Int) = (run P _ ops).log.count (Ev.kfree k) + live (run P _ ops).map k
  omega

/-- No key block is leaked: once the map has been cleared (`m_map_clear`, `m_map_free`) every key
block that was ever allocated has been released. -/
theorem C05_no_key_leak (P : Params κ) (hP : P.Good) (dup autofree update dtor : Bool)
    (hown : (autofree || dup) = true) (ops : List (Op κ)) (k : κ) :
    let s := run P { map := new P dup autofree update dtor } (ops ++ [Op.clear])
    s.log.count (Ev.kalloc k) = s.log.count (Ev.kfree k) := by
  intro s
  have h := C05_keys_balanced P hP dup autofree update dtor hown (ops ++ [Op.clear]) k
  have hwf := (C05_wf_reachable P hP dup autofree update dtor ops).1
  have hc : content s.map = [] := by
    show content (run P _ (ops ++ [Op.clear])).map = []
    unfold run
    rw [List.foldl_append]
    exact (C05_clear P hP _ hwf).2.2.2.2.1
  change ((s.log.count (Ev.kalloc k) : Int) =
    s.log.count (Ev.kfree k) + (if k ∈ (content s.map).map (·.1) then 1 else 0)) at h
  rw [hc] at h
  simp only [List.map_nil, List.not_mem_nil, if_false] at h
  omega

/-! ## Non-vacuity: a small instance with colliding keys and a cluster wrapping the table end -/

/-- table of 8 slots, identity hash -/
def demoP : Params Nat where
  home n k := k % n
  probeLen n := n / 2
  minSize len := len + len / 3
  shift n hole idx home := decide ((idx + n - hole) % n ≤ (idx + n - home) % n)
  sizeDefault := 8
  maxSize := 64

theorem C05_demo_params_good : demoP.Good := by
  constructor
  · intro n k h0 _; exact Nat.mod_lt _ h0
  · intro n _; rfl
  · intro n len h1 _ _ h4
    simp only [demoP] at h1 h4
    omega
  · intro n hole idx home _ _ _ _ _; rfl
  · exact ⟨3, rfl⟩
  · decide
  · decide

/-- keys 7, 15, 23 all home on the last slot (cluster 7, 0, 1); 0 homes on slot 0 and is pushed to 2 -/
def demoOps : List (Op Nat) := [.put 7 1, .put 15 2, .put 23 3, .put 0 4, .del 7, .put 15 5]

def demoSt : St Nat := run demoP { map := new demoP true true true true } demoOps

example : demoSt.map.cells = [some (23, 3), some (0, 4), none, none, none, none, none, some (15, 5)] := by decide
example : (get demoP demoSt.map 15, get demoP demoSt.map 23, get demoP demoSt.map 0, get demoP demoSt.map 7) =
    (some 5, some 3, some 4, none) := by decide
example : demoSt.log = [.kalloc 7, .kalloc 15, .kalloc 23, .kalloc 0, .kfree 7, .dtor 1,
    .kalloc 15, .dtor 2, .kfree 15] := by decide
/-- iteration with removal of the first visited entry (the head of the wrapped cluster): 3 visits, each entry once -/
example : visitsOf (iterate demoP demoSt.map (fun i _ _ => if i = 0 then .rm else .cont)).2.1 =
    [(15, 5), (23, 3), (0, 4)] := by decide
example : ContRm (fun (i : Nat) (_ : Nat) (_ : Nat) => if i = 0 then CbAct.rm else CbAct.cont) := by
  intro i k v; by_cases h : i = 0 <;> simp [h]
/-- D-05b shape at size 8: keys at homes 0..4 each at home, remove the home-0 key: the key with home 4
(distance exactly size/2) must stay where it is -/
example : (remove demoP (run demoP { map := new demoP false false false false }
    [.put 8 1, .put 1 2, .put 2 3, .put 3 4, .put 4 5]).map 8).1.cells =
    [none, some (1, 2), some (2, 3), some (3, 4), some (4, 5), none, none, none] := by decide
/-- growth: the seventh key doubles the table (8 <= 6 + 2) and every entry is still found -/
example : let m := (run demoP { map := new demoP false false false false }
      [.put 7 1, .put 15 2, .put 23 3, .put 31 4, .put 6 5, .put 14 6, .put 22 7]).map
    (m.size, m.length, get demoP m 31, get demoP m 22, get demoP m 7) = (16, 7, some 4, some 7, some 1) := by decide
/-- clear releases every entry once -/
example : (clear demoP demoSt.map).2 = [.kfree 15, .dtor 5, .kfree 23, .dtor 3, .kfree 0, .dtor 4] := by decide

end Lm.Props.C05

