import Lm.Struct.Map
import Lm.Struct.MapGen
import Lm.Inv.Map
import Lm.Inv.MapOps
import Lm.Inv.MapGen
/-!
# C05 — the string-keyed map behaves as a dictionary for all key sets and operation orders

Property theorems only (helper lemmas: `Lm.Inv.Map`, `Lm.Inv.MapOps`; side conditions on the
regenerated fragments: `Lm.Inv.MapGen`).  The model `Lm.Struct.Map` mirrors `Lib/structs/map.c`
after the `fix:` commits; every theorem is for **every** home-slot function (so for every hash
function, every set of colliding keys, every cluster wrapping the end of the table), every table size
the code can reach, and every well-formed map — and `C05_wf_reachable` shows that every operation
sequence only reaches well-formed maps.

The dictionary a map stands for is `content m` (its live entries); `m.length` is what `m_map_len`
returns.
-/
namespace Lm.Props.C05
open Lm.Struct.Map
variable {κ : Type} [DecidableEq κ]

/-! ## Tie A: the fragments regenerated from `map.c` meet the side conditions of all proofs below -/

/-- `MAP_SIZE_DEFAULT`, `MAP_PROBE_LEN`, `MAP_SIZE_MOD`, the load rule and the back-shift decision
as they are in the source today: probe length = size/2, home slot below the size, one slot stays
free, "move iff the home slot is not in (hole, idx]" for every power-of-two size. -/
theorem C05_fragments_good (bytes : κ → List (BitVec 8)) : (genParams bytes).Good :=
  genParams_good bytes

/-! ## The dictionary view -/

/-- The live entries have pairwise different keys and `m_map_len` is their number. -/
theorem C05_len (P : Params κ) (m : Map κ) (hwf : WF P m) :
    ((content m).map (·.1)).Nodup ∧ m.length = (content m).length :=
  ⟨nodup_keysOf P m.cells hwf.tbl, hwf.len⟩

/-- `m_map_get` returns the value stored under the key, and `NULL` exactly for keys that are not
live — whatever collides with what, wherever the cluster lies. -/
theorem C05_get (P : Params κ) (hP : P.Good) (m : Map κ) (hwf : WF P m) (k : κ) :
    (∀ v, get P m k = some v ↔ (k, v) ∈ content m) ∧
    (get P m k = none ↔ ∀ v, (k, v) ∉ content m) ∧
    (contains P m k = true ↔ ∃ v, (k, v) ∈ content m) := by
  refine ⟨fun v => ?_, ?_, ?_⟩
  · rw [get_spec P hP m hwf, has_iff_mem]; rfl
  · rw [get_none_spec P hP m hwf]; simp only [has_iff_mem]; rfl
  · rw [contains_spec P hP m hwf]; simp only [has_iff_mem]; rfl

/-- `m_map_put`: a `NULL` value is refused; otherwise a new key is added (`length + 1`, no
destructor), an existing key is replaced only with `ALLOW_UPDATE` (the old value is destroyed once,
unless it is the same pointer) and refused with `-EPERM` (`-1`) without any effect otherwise; it can
fail with `-ENOMEM` (`-12`) only when the allocator fails (`oom`, or a table beyond what `calloc` can
deliver), again without effect on the contents.  The key copy of `KEY_DUP` is allocated once and
released again exactly when no new entry was created.  The map stays well-formed (also across the
growth of the table). -/
theorem C05_put (P : Params κ) (hP : P.Good) (m : Map κ) (hwf : WF P m) (k : κ) (v : Nat) :
    let r := put P m k v
    WF P r.1 ∧ SameFlags m r.1 ∧
    ((v = 0 ∧ r = (m, [], -22)) ∨
     (v ≠ 0 ∧ ∃ evs : List (Ev κ),
        r.2.1 = (if (m.dup || m.autofree) then
                  [Ev.kalloc k] ++ evs ++ (if r.2.2 ≠ 0 ∨ r.1.length = m.length then [Ev.kfree k] else [])
                else evs) ∧
        (-- success
         (r.2.2 = 0 ∧ (∀ e, e ∈ content r.1 ↔ e = (k, v) ∨ (e ∈ content m ∧ e.1 ≠ k)) ∧
            (((∀ w, (k, w) ∉ content m) ∧ r.1.length = m.length + 1 ∧ evs = []) ∨
             (∃ w, (k, w) ∈ content m ∧ m.update = true ∧ r.1.length = m.length ∧
                evs = if m.dtor && w != v then [Ev.dtor w] else []))) ∨
         -- no update allowed
         (r.2.2 = -1 ∧ (∀ e, e ∈ content r.1 ↔ e ∈ content m) ∧ r.1.length = m.length ∧ evs = [] ∧
            m.update = false ∧ ∃ w, (k, w) ∈ content m) ∨
         -- allocation failure
         (r.2.2 = -12 ∧ (∀ e, e ∈ content r.1 ↔ e ∈ content m) ∧ r.1.length = m.length ∧ evs = [] ∧
            (m.oom = true ∨ P.maxSize < 4 * m.size))))) := by
  intro r
  obtain ⟨h1, h2, h3⟩ := put_spec P hP m hwf k v
  refine ⟨h1, h2, ?_⟩
  rcases h3 with h3 | ⟨hv, r0, hspec, e1, e2, e3⟩
  · left; exact h3
  · right
    refine ⟨hv, r0.2.1, ?_, ?_⟩
    · show (put P m k v).2.1 = _
      rw [e3, e1, e2]
    · show ((put P m k v).2.2 = 0 ∧ _) ∨ ((put P m k v).2.2 = -1 ∧ _) ∨ ((put P m k v).2.2 = -12 ∧ _)
      rw [e1, e2]
      simp only [content, ← has_iff_mem]
      rcases hspec with ⟨a, b, c⟩ | ⟨a, b, c, d, e⟩ | ⟨a, b, c, d⟩
      · left; exact ⟨a, b, c⟩
      · right; left; exact ⟨a, b.1, b.2, c, d, e⟩
      · right; right; exact ⟨a, b.1, b.2, c, d⟩

/-- `m_map_remove` deletes exactly the named entry — every other live entry stays reachable,
including those that the back-shift moves — destroys its value once and releases its key when the
map owns it; for a key that is not live it fails (`-ENOENT`, or `-EINVAL` on an empty map) without
effect. -/
theorem C05_remove (P : Params κ) (hP : P.Good) (m : Map κ) (hwf : WF P m) (k : κ) :
    let r := remove P m k
    WF P r.1 ∧ SameFlags m r.1 ∧
    ((∃ v, (k, v) ∈ content m ∧ r.2.2 = 0 ∧ r.1.length + 1 = m.length ∧ r.1.size = m.size ∧
        (∀ e, e ∈ content r.1 ↔ (e ∈ content m ∧ e.1 ≠ k)) ∧
        r.2.1 = (if m.autofree then [Ev.kfree k] else []) ++ (if m.dtor then [Ev.dtor v] else [])) ∨
     ((∀ v, (k, v) ∉ content m) ∧ r.1 = m ∧ r.2.1 = [] ∧ r.2.2 = if m.length = 0 then -22 else -2)) := by
  intro r
  have := remove_spec P hP m hwf k
  simp only [content, ← has_iff_mem]
  exact this

/-- Growth (`hashmap_rehash`) never fails for lack of a slot, doubles the table and keeps exactly
the live entries; it fails only when the allocator does, and then nothing changes. -/
theorem C05_rehash (P : Params κ) (hP : P.Good) (m : Map κ) (hwf : WF P m) :
    (∃ m', rehash P m = (m', 0) ∧ WF P m' ∧ m'.size = 2 * m.size ∧ m'.length = m.length ∧
        (∀ e, e ∈ content m' ↔ e ∈ content m) ∧ SameFlags m m') ∨
    (∃ m', rehash P m = (m', -12) ∧ m'.cells = m.cells ∧ m'.length = m.length ∧
        (m.oom = true ∨ P.maxSize < 2 * m.size)) := by
  rcases rehash_spec P hP m hwf with ⟨m', h1, h2, h3, h4, h5, _, _⟩ | ⟨m', h1, h2, h3, _, h5⟩
  · left
    refine ⟨m', h1, h2, h3, h4.2, ?_, h5⟩
    simp only [content, ← has_iff_mem]; exact h4.1
  · right; exact ⟨m', h1, h2, h3, h5⟩

/-- A new map is empty and well-formed. -/
theorem C05_new (P : Params κ) (hP : P.Good) (dup autofree update dtor : Bool) :
    WF P (new P dup autofree update dtor) ∧ content (new P dup autofree update dtor) = [] ∧
    (new P dup autofree update dtor).length = 0 := by
  refine ⟨WF_new P hP _ _ _ _, ?_, rfl⟩
  have := occ_replicate (κ := κ) P.sizeDefault
  unfold occ at this
  exact List.length_eq_zero_iff.mp this

end Lm.Props.C05
