import Lm.Struct.Map
import Lm.Struct.MapGen
namespace Lm.Props.C05
open Lm.Struct.Map

theorem C05_placeholder : True := trivial

end Lm.Props.C05
