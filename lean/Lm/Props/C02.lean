import Lm.Inst.CoreTie
import Lm.Inv.CoreSafe
import Lm.Inv.CoreGuards
/-! # C02 — Pub/sub: each accepted message reaches exactly its eligible recipients, once

Proved here about the sending side (`tell_if`, `tell_pubsub_msg`, the auto-free holder).  The end-to-end
conservation statement over whole histories (every copy is delivered once or discarded for a stated reason) is **not**
proved as a theorem (the sending side of a broadcast and of a publication is: `C02_broadcast_exactly_the_eligible`, `C02_publish_exactly_the_subscribed`); it is checked on explored histories by the correspondence and by the oracle (see DESIGN.md). -/
namespace Lm.Props.C02
open Lm.Core

/-- handing a message to `r` never touches another module -/
theorem C02_nobody_else (s : St) (msg : Msg) (key : TellKey) (r k : ModId) (h : k ≠ r) :
    (tellIf s msg key r).mods[k]? = s.mods[k]? := by
  have hr : ∀ st : St, (holderRef st msg.holder).mods = st.mods := by
    intro st; unfold holderRef; split
    · rfl
    · split <;> rfl
  have hu : ∀ (st : St) (x : Msg), (destroyMsg st x).mods = st.mods := by
    intro st x; unfold destroyMsg holderUnref; split
    · rfl
    · split
      · simp only; split <;> rfl
      · rfl
  unfold tellIf
  split
  · rfl
  · split
    · simp only
      split
      · split
        · unfold St.updMod
          split
          · simp only [List.getElem?_set]
            have : ¬ r = k := fun e => h e.symm
            simp [this, hr]
          · rw [hr]
        · rw [hu, hr]
      · rw [hu, hr]
    · rfl

/-- a module that is neither RUNNING nor PAUSED is not eligible: nothing at all happens -/
theorem C02_not_eligible_no_effect (s : St) (msg : Msg) (key : TellKey) (r : ModId) (md : Mod) (hm : s.mods[r]? = some md)
    (h : md.state ≠ .running ∧ md.state ≠ .paused) : tellIf s msg key r = s := by
  unfold tellIf
  simp [hm, h.1, h.2]

/-- an eligible recipient with room in its mailbox gets exactly one copy, appended at the end, carrying the
sender, topic, payload pointer and system flag of the send -/
theorem C02_eligible_gets_one_copy (s : St) (msg : Msg) (key : TellKey) (r : ModId) (md : Mod) (q : List Msg)
    (hm : s.mods[r]? = some md) (he : md.state = .running ∨ md.state = .paused) (hp : md.pipe = some q) (hroom : q.length + md.pipeSkip < pipeCap) :
    ∃ copy md', (tellIf s msg key r).mods[r]? = some md' ∧ md'.pipe = some (q ++ [copy]) ∧
      copy.sender = msg.sender ∧ copy.topic = msg.topic ∧ copy.payload = msg.payload ∧ copy.sys = msg.sys ∧ md'.state = md.state ∧
      copy.pill = msg.pill ∧ md'.pipeSkip = md.pipeSkip := by
  have hr : (holderRef s msg.holder).mods = s.mods := by
    unfold holderRef; split
    · rfl
    · split <;> rfl
  have hlt : r < s.mods.length := (List.getElem?_eq_some_iff.mp hm).1
  have hget : s.mods[r] = md := (List.getElem?_eq_some_iff.mp hm).2
  have hst : (md.state == MState.running || md.state == MState.paused) = true := by
    rcases he with h | h <;> simp [h]
  unfold tellIf
  simp only [hm, hst, if_true, hp, hroom]
  refine ⟨{ msg with sub := key.subOf, rcpt := some r }, { md with pipe := some (q ++ [{ msg with sub := key.subOf, rcpt := some r }]) }, ?_, rfl, rfl, rfl, rfl, rfl, rfl, rfl, rfl⟩
  unfold St.updMod
  simp [hr, hm, hlt, hget]

/-- the reference on an auto-free payload holder: the payload is released exactly when the last reference goes … -/
theorem C02_autofree_released_with_last_reference (s : St) (i : HolderId) (n : Nat) (h : s.holders[i]? = some n) :
    (n = 1 → (holderUnref s (some i)).out = s.out ++ [.free (s.holderPayload[i]?.getD 0)]) ∧
    (n ≠ 1 → (holderUnref s (some i)).out = s.out) ∧ (holderUnref s (some i)).holders = s.holders.set i (n - 1) := by
  unfold holderUnref
  simp only [h]
  refine ⟨fun h1 => by simp [h1, St.emit], fun h1 => by simp [h1], ?_⟩
  split <;> rfl

/-- … and a payload sent without the auto-free flag is never released by the library: no holder, no release event -/
theorem C02_never_released_without_flag (s : St) : (holderUnref s none) = s ∧ (holderRef s none) = s := ⟨rfl, rfl⟩

/-- a tell to a recipient that is not eligible, with auto-free: the payload is released at once, exactly once -/
theorem C02_nobody_eligible_released_at_once (s : St) (m r : ModId) (md : Mod) (p : Nat)
    (hr : (s.updMod m fun x => { x with sent := x.sent + 1 }).mods[r]? = some md) (h : md.state ≠ .running ∧ md.state ≠ .paused)
    (hl : s.holders.length = s.holderPayload.length) :
    (sendMsg s m (some r) none p true).out = s.out ++ [.free p] := by
  unfold sendMsg
  simp only [if_true, tellPubsub]
  have hn : ∀ st : St, (newHolder st p).mods = st.mods := fun _ => rfl
  rw [C02_not_eligible_no_effect _ _ _ r md (by rw [hn]; exact hr) h]
  unfold holderUnref newHolder
  simp [St.emit, hl]


/-- broadcast = one `tell_if` per module of the table, in table order -/
def bcast (s : St) (msg : Msg) (l : List ModId) : St := l.foldl (fun s r => tellIf s msg .bcast r) s

theorem bcast_untouched (msg : Msg) : ∀ (l : List ModId) (s : St) (k : ModId), k ∉ l → (bcast s msg l).mods[k]? = s.mods[k]?
  | [], _, _, _ => rfl
  | r :: rs, s, k, hk => by
    have h1 : k ≠ r := fun e => hk (by simp [e])
    have h2 : k ∉ rs := fun e => hk (by simp [e])
    show (bcast (tellIf s msg .bcast r) msg rs).mods[k]? = _
    rw [bcast_untouched msg rs _ k h2, C02_nobody_else s msg .bcast r k h1]

/-- **Exactly the eligible recipients, once each**: after a broadcast over a duplicate-free list of modules, a module of the
list that is RUNNING or PAUSED with room in its mailbox holds exactly one more message, at the end, carrying the payload; every
module of the list that is not eligible, and every module outside the list, is untouched. -/
theorem C02_broadcast_one_copy_each (msg : Msg) : ∀ (l : List ModId) (s : St), l.Nodup → ∀ (k : ModId) (md : Mod), s.mods[k]? = some md →
    (k ∉ l → (bcast s msg l).mods[k]? = some md) ∧
    (k ∈ l → md.state ≠ .running ∧ md.state ≠ .paused → (bcast s msg l).mods[k]? = some md) ∧
    (k ∈ l → (md.state = .running ∨ md.state = .paused) → ∀ q, md.pipe = some q → q.length + md.pipeSkip < pipeCap →
      ∃ copy md', (bcast s msg l).mods[k]? = some md' ∧ md'.pipe = some (q ++ [copy]) ∧ copy.payload = msg.payload ∧
        copy.sender = msg.sender ∧ copy.topic = msg.topic ∧ md'.state = md.state)
  | [], s, _, k, md, hm => ⟨fun _ => hm, ⟨fun h => absurd h (by simp), fun h => absurd h (by simp)⟩⟩
  | r :: rs, s, hn, k, md, hm => by
    have hn' := List.nodup_cons.mp hn
    refine ⟨fun hk => ?_, fun hk hne => ?_, fun hk he q hp hroom => ?_⟩
    · rw [bcast_untouched msg (r :: rs) s k hk]; exact hm
    · show (bcast (tellIf s msg .bcast r) msg rs).mods[k]? = _
      rcases List.mem_cons.mp hk with rfl | hk'
      · rw [bcast_untouched msg rs _ k hn'.1, C02_not_eligible_no_effect s msg .bcast k md hm hne]; exact hm
      · have hkr : k ≠ r := fun e => hn'.1 (e ▸ hk')
        have hm' : (tellIf s msg .bcast r).mods[k]? = some md := by rw [C02_nobody_else s msg .bcast r k hkr]; exact hm
        exact (C02_broadcast_one_copy_each msg rs _ hn'.2 k md hm').2.1 hk' hne
    · show ∃ copy md', (bcast (tellIf s msg .bcast r) msg rs).mods[k]? = some md' ∧ _
      rcases List.mem_cons.mp hk with rfl | hk'
      · obtain ⟨c, md', h1, h2, h3, h4, h5, _, h6, _, _⟩ := C02_eligible_gets_one_copy s msg .bcast k md q hm he hp hroom
        refine ⟨c, md', ?_, h2, h5, h3, h4, h6⟩
        rw [bcast_untouched msg rs _ k hn'.1]; exact h1
      · have hkr : k ≠ r := fun e => hn'.1 (e ▸ hk')
        have hm' : (tellIf s msg .bcast r).mods[k]? = some md := by rw [C02_nobody_else s msg .bcast r k hkr]; exact hm
        exact (C02_broadcast_one_copy_each msg rs _ hn'.2 k md hm').2.2 hk' he q hp hroom

theorem nodup_filterMap_on {α β : Type} (f : α → Option β) : ∀ (l : List α), l.Nodup →
    (∀ a ∈ l, ∀ b ∈ l, ∀ x, f a = some x → f b = some x → a = b) → (l.filterMap f).Nodup
  | [], _, _ => by simp
  | a :: l, hn, hinj => by
    have hn' := List.nodup_cons.mp hn
    have ih := nodup_filterMap_on f l hn'.2 (fun x hx y hy => hinj x (by simp [hx]) y (by simp [hy]))
    simp only [List.filterMap_cons]
    cases hfa : f a with
    | none => simpa using ih
    | some x =>
      simp only
      refine List.nodup_cons.mpr ⟨fun hm => ?_, ih⟩
      obtain ⟨b, hb, he⟩ := List.mem_filterMap.mp hm
      have := hinj a (by simp) b (by simp [hb]) x hfa he
      exact hn'.1 (this ▸ hb)

theorem nodup_map_on {α β : Type} (f : α → β) : ∀ (l : List α), l.Nodup → (∀ a ∈ l, ∀ b ∈ l, f a = f b → a = b) → (l.map f).Nodup
  | [], _, _ => by simp
  | a :: l, hn, hinj => by
    have hn' := List.nodup_cons.mp hn
    simp only [List.map_cons, List.nodup_cons]
    refine ⟨?_, nodup_map_on f l hn'.2 (fun x hx y hy => hinj x (by simp [hx]) y (by simp [hy]))⟩
    intro hm
    obtain ⟨b, hb, he⟩ := List.mem_map.mp hm
    have := hinj b (by simp [hb]) a (by simp) he
    subst this
    exact hn'.1 hb

/-- the module table is walked without visiting a module twice (no invariant needed: two different slots cannot hold the
same module) -/
theorem C02_table_walk_visits_once (s : St) : s.tableOrder.Nodup := by
  unfold St.tableOrder
  apply nodup_filterMap_on
  · unfold St.scanOrder
    apply nodup_map_on _ _ List.nodup_range
    intro a ha b hb h
    simp only [List.mem_range, tableSize] at ha hb h
    omega
  · intro a _ b _ x ha hb
    unfold St.modAtSlot at ha hb
    obtain ⟨h1, h2, _⟩ := List.findIdx?_eq_some_iff_getElem.mp ha
    obtain ⟨_, h3, _⟩ := List.findIdx?_eq_some_iff_getElem.mp hb
    simp only [Bool.and_eq_true, beq_iff_eq] at h2 h3
    rw [← h2.2, ← h3.2]

/-- `m_mod_ps_broadcast` (no recipient, no topic) is that walk -/
theorem C02_broadcast_is_the_table_walk (s : St) (msg : Msg) (h : msg.topic = none) : tellPubsub s msg none = bcast s msg s.tableOrder := by
  unfold tellPubsub bcast
  simp [h]

/-- **Broadcast: exactly the eligible recipients, once each** — the two facts above put together for `m_mod_ps_broadcast` -/
theorem C02_broadcast_exactly_the_eligible (s : St) (msg : Msg) (h : msg.topic = none) (k : ModId) (md : Mod) (hm : s.mods[k]? = some md) :
    (k ∉ s.tableOrder → (tellPubsub s msg none).mods[k]? = some md) ∧
    (k ∈ s.tableOrder → md.state ≠ .running ∧ md.state ≠ .paused → (tellPubsub s msg none).mods[k]? = some md) ∧
    (k ∈ s.tableOrder → (md.state = .running ∨ md.state = .paused) → ∀ q, md.pipe = some q → q.length + md.pipeSkip < pipeCap →
      ∃ copy md', (tellPubsub s msg none).mods[k]? = some md' ∧ md'.pipe = some (q ++ [copy]) ∧ copy.payload = msg.payload ∧
        copy.sender = msg.sender ∧ copy.topic = msg.topic ∧ md'.state = md.state) := by
  rw [C02_broadcast_is_the_table_walk s msg h]
  exact C02_broadcast_one_copy_each msg s.tableOrder s (C02_table_walk_visits_once s) k md hm

/-- one step of `tell_subscribers` -/
def pubStep (msg : Msg) (t : String) (s : St) (r : ModId) : St :=
  match s.mods[r]? with
  | some md =>
    if md.state == .running || md.state == .paused then
      match fetchSub s md t with
      | some sub => tellIf s msg (.sub sub) r
      | none => s
    else s
  | none => s

def pubWalk (s : St) (msg : Msg) (t : String) (l : List ModId) : St := l.foldl (pubStep msg t) s

theorem tellIf_srcs (s : St) (msg : Msg) (key : TellKey) (r : ModId) : (tellIf s msg key r).srcs = s.srcs ∧ (tellIf s msg key r).rx = s.rx := by
  have hr : ∀ st : St, (holderRef st msg.holder).srcs = st.srcs ∧ (holderRef st msg.holder).rx = st.rx := by
    intro st; unfold holderRef; split
    · exact ⟨rfl, rfl⟩
    · split <;> exact ⟨rfl, rfl⟩
  have hu : ∀ (st : St) (x : Msg), (destroyMsg st x).srcs = st.srcs ∧ (destroyMsg st x).rx = st.rx := by
    intro st x; unfold destroyMsg holderUnref; split
    · exact ⟨rfl, rfl⟩
    · split
      · simp only; split <;> exact ⟨rfl, rfl⟩
      · exact ⟨rfl, rfl⟩
  unfold tellIf
  split
  · exact ⟨rfl, rfl⟩
  · split
    · simp only
      split
      · split
        · unfold St.updMod
          split
          · exact ⟨(hr s).1, (hr s).2⟩
          · exact hr s
        · exact ⟨((hu _ _).1).trans (hr s).1, ((hu _ _).2).trans (hr s).2⟩
      · exact ⟨((hu _ _).1).trans (hr s).1, ((hu _ _).2).trans (hr s).2⟩
    · exact ⟨rfl, rfl⟩

theorem fetchSub_congr (s s' : St) (md : Mod) (t : String) (h1 : s'.srcs = s.srcs) (h2 : s'.rx = s.rx) : fetchSub s' md t = fetchSub s md t := by
  unfold fetchSub
  simp only [h1, h2]

theorem pubStep_other (msg : Msg) (t : String) (s : St) (r k : ModId) (h : k ≠ r) :
    (pubStep msg t s r).mods[k]? = s.mods[k]? ∧ (pubStep msg t s r).srcs = s.srcs ∧ (pubStep msg t s r).rx = s.rx := by
  unfold pubStep
  split
  · split
    · split
      · exact ⟨C02_nobody_else s msg _ r k h, tellIf_srcs s msg _ r⟩
      · exact ⟨rfl, rfl, rfl⟩
    · exact ⟨rfl, rfl, rfl⟩
  · exact ⟨rfl, rfl, rfl⟩

theorem pubWalk_untouched (msg : Msg) (t : String) : ∀ (l : List ModId) (s : St) (k : ModId), k ∉ l →
    (pubWalk s msg t l).mods[k]? = s.mods[k]?
  | [], _, _, _ => rfl
  | r :: rs, s, k, hk => by
    have h1 : k ≠ r := fun e => hk (by simp [e])
    have h2 : k ∉ rs := fun e => hk (by simp [e])
    show (pubWalk (pubStep msg t s r) msg t rs).mods[k]? = _
    rw [pubWalk_untouched msg t rs _ k h2, (pubStep_other msg t s r k h1).1]

/-- **Publish: exactly the subscribed, once each.**  Walking a duplicate-free list of modules, a module of the list that is
RUNNING or PAUSED, has a subscription matching the topic (`fetch_sub`: exact topic first, then the first matching pattern in
table order) and room in its mailbox gets exactly one copy, at the end, tagged with that subscription; a module that is not
eligible or has no matching subscription, and every module outside the list, is untouched. -/
theorem C02_publish_one_copy_each (msg : Msg) (t : String) : ∀ (l : List ModId) (s : St), l.Nodup → ∀ (k : ModId) (md : Mod), s.mods[k]? = some md →
    (k ∉ l → (pubWalk s msg t l).mods[k]? = some md) ∧
    (k ∈ l → ((md.state ≠ .running ∧ md.state ≠ .paused) ∨ fetchSub s md t = none) → (pubWalk s msg t l).mods[k]? = some md) ∧
    (k ∈ l → (md.state = .running ∨ md.state = .paused) → ∀ sub, fetchSub s md t = some sub → ∀ q, md.pipe = some q →
      q.length + md.pipeSkip < pipeCap →
      ∃ copy md', (pubWalk s msg t l).mods[k]? = some md' ∧ md'.pipe = some (q ++ [copy]) ∧ copy.payload = msg.payload ∧
        copy.sender = msg.sender ∧ copy.topic = msg.topic ∧ copy.sub = some sub ∧ md'.state = md.state ∧ copy.sys = msg.sys)
  | [], s, _, k, md, hm => ⟨fun _ => hm, ⟨fun h => absurd h (by simp), fun h => absurd h (by simp)⟩⟩
  | r :: rs, s, hn, k, md, hm => by
    have hn' := List.nodup_cons.mp hn
    refine ⟨fun hk => ?_, fun hk hne => ?_, fun hk he sub hf q hp hroom => ?_⟩
    · rw [pubWalk_untouched msg t (r :: rs) s k hk]; exact hm
    · show (pubWalk (pubStep msg t s r) msg t rs).mods[k]? = _
      rcases List.mem_cons.mp hk with rfl | hk'
      · rw [pubWalk_untouched msg t rs _ k hn'.1]
        unfold pubStep
        simp only [hm]
        rcases hne with hne | hne
        · simp [hne.1, hne.2, hm]
        · split
          · simp [hne, hm]
          · exact hm
      · have hkr : k ≠ r := fun e => hn'.1 (e ▸ hk')
        obtain ⟨o1, o2, o3⟩ := pubStep_other msg t s r k hkr
        have hm' : (pubStep msg t s r).mods[k]? = some md := by rw [o1]; exact hm
        have hne' : (md.state ≠ .running ∧ md.state ≠ .paused) ∨ fetchSub (pubStep msg t s r) md t = none := by
          rcases hne with h | h
          · exact Or.inl h
          · exact Or.inr (by rw [fetchSub_congr s _ md t o2 o3]; exact h)
        exact (C02_publish_one_copy_each msg t rs _ hn'.2 k md hm').2.1 hk' hne'
    · show ∃ copy md', (pubWalk (pubStep msg t s r) msg t rs).mods[k]? = some md' ∧ _
      rcases List.mem_cons.mp hk with rfl | hk'
      · have hst : (md.state == MState.running || md.state == MState.paused) = true := by rcases he with h | h <;> simp [h]
        have hstep : pubStep msg t s k = tellIf s msg (.sub sub) k := by
          unfold pubStep; simp only [hm, hst, if_true, hf]
        obtain ⟨c, md', h1, h2, h3, h4, h5, hsys, h6, _, _⟩ := C02_eligible_gets_one_copy s msg (.sub sub) k md q hm he hp hroom
        refine ⟨c, md', ?_, h2, h5, h3, h4, ?_, h6, hsys⟩
        · rw [pubWalk_untouched msg t rs _ k hn'.1, hstep]; exact h1
        · -- the copy is tagged with the subscription
          have : (tellIf s msg (.sub sub) k).mods[k]? = some { md with pipe := some (q ++ [{ msg with sub := some sub, rcpt := some k }]) } := by
            have hr : (holderRef s msg.holder).mods = s.mods := by
              unfold holderRef; split
              · rfl
              · split <;> rfl
            have hlt : k < s.mods.length := (List.getElem?_eq_some_iff.mp hm).1
            have hget : s.mods[k] = md := (List.getElem?_eq_some_iff.mp hm).2
            unfold tellIf
            simp only [hm, hst, if_true, hp, hroom, TellKey.subOf]
            unfold St.updMod
            simp [hr, hlt, hget]
          rw [this] at h1
          have e := Option.some.inj h1
          rw [← e] at h2
          simp at h2
          rw [← h2]
      · have hkr : k ≠ r := fun e => hn'.1 (e ▸ hk')
        obtain ⟨o1, o2, o3⟩ := pubStep_other msg t s r k hkr
        have hm' : (pubStep msg t s r).mods[k]? = some md := by rw [o1]; exact hm
        have hf' : fetchSub (pubStep msg t s r) md t = some sub := by rw [fetchSub_congr s _ md t o2 o3]; exact hf
        exact (C02_publish_one_copy_each msg t rs _ hn'.2 k md hm').2.2 hk' he sub hf' q hp hroom

/-- `m_mod_ps_publish` is that walk over the module table -/
theorem C02_publish_is_the_table_walk (s : St) (msg : Msg) (t : String) (h : msg.topic = some t) :
    tellPubsub s msg none = pubWalk s msg t s.tableOrder := by
  unfold tellPubsub pubWalk
  simp only [h]
  rfl

/-- **Publish: exactly the subscribed and eligible recipients, once each** — for `m_mod_ps_publish` -/
theorem C02_publish_exactly_the_subscribed (s : St) (msg : Msg) (t : String) (h : msg.topic = some t) (k : ModId) (md : Mod)
    (hm : s.mods[k]? = some md) :
    (k ∉ s.tableOrder → (tellPubsub s msg none).mods[k]? = some md) ∧
    (k ∈ s.tableOrder → ((md.state ≠ .running ∧ md.state ≠ .paused) ∨ fetchSub s md t = none) → (tellPubsub s msg none).mods[k]? = some md) ∧
    (k ∈ s.tableOrder → (md.state = .running ∨ md.state = .paused) → ∀ sub, fetchSub s md t = some sub → ∀ q, md.pipe = some q →
      q.length + md.pipeSkip < pipeCap →
      ∃ copy md', (tellPubsub s msg none).mods[k]? = some md' ∧ md'.pipe = some (q ++ [copy]) ∧ copy.payload = msg.payload ∧
        copy.sender = msg.sender ∧ copy.topic = msg.topic ∧ copy.sub = some sub ∧ md'.state = md.state ∧ copy.sys = msg.sys) := by
  rw [C02_publish_is_the_table_walk s msg t h]
  exact C02_publish_one_copy_each msg t s.tableOrder s (C02_table_walk_visits_once s) k md hm

/-- what the walk order of the module table depends on: which modules are in the table, and their slots -/
def tableKey (s : St) : List (Bool × Nat) := s.mods.map fun md => (md.inCtx, md.slot)

theorem modAtSlot_key (s s' : St) (h : tableKey s' = tableKey s) (i : Nat) : s'.modAtSlot i = s.modAtSlot i := by
  unfold St.modAtSlot
  have e : ∀ (l : List Mod), l.findIdx? (fun md => md.inCtx && md.slot == i) =
      (l.map fun md => (md.inCtx, md.slot)).findIdx? (fun x => x.1 && x.2 == i) := by
    intro l; rw [List.findIdx?_map]; rfl
  rw [e s'.mods, e s.mods]
  unfold tableKey at h
  rw [h]

theorem tableOrder_key (s s' : St) (h : tableKey s' = tableKey s) : s'.tableOrder = s.tableOrder := by
  have hm : s'.modAtSlot = s.modAtSlot := funext (modAtSlot_key s s' h)
  unfold St.tableOrder St.scanOrder
  rw [hm]

theorem tellIf_key (s : St) (msg : Msg) (key : TellKey) (r : ModId) : tableKey (tellIf s msg key r) = tableKey s := by
  have hr : ∀ st : St, (holderRef st msg.holder).mods = st.mods := by
    intro st; unfold holderRef; split
    · rfl
    · split <;> rfl
  have hu : ∀ (st : St) (x : Msg), (destroyMsg st x).mods = st.mods := by
    intro st x; unfold destroyMsg holderUnref; split
    · rfl
    · split
      · simp only; split <;> rfl
      · rfl
  unfold tableKey tellIf
  split
  · rfl
  · rename_i md hmd
    split
    · simp only
      split
      · split
        · unfold St.updMod
          rw [hr] 
          simp only [hmd]
          have hlt : r < s.mods.length := (List.getElem?_eq_some_iff.mp hmd).1
          have hget : s.mods[r] = md := (List.getElem?_eq_some_iff.mp hmd).2
          rw [List.map_set]
          apply List.ext_getElem
          · simp
          · intro i h1 h2
            simp only [List.getElem_set, List.getElem_map]
            split
            · rename_i e; subst e; simp [hget]
            · rfl
        · rw [hu, hr]
      · rw [hu, hr]
    · rfl

theorem pubWalk_key (msg : Msg) (t : String) : ∀ (l : List ModId) (s : St), tableKey (pubWalk s msg t l) = tableKey s
  | [], _ => rfl
  | r :: rs, s => by
    show tableKey (pubWalk (pubStep msg t s r) msg t rs) = _
    rw [pubWalk_key msg t rs]
    unfold pubStep
    split
    · split
      · split
        · exact tellIf_key s msg _ r
        · rfl
      · rfl
    · rfl

/-- a publication does not change the order in which the module table is walked -/
theorem publish_keeps_table_order (s : St) (msg : Msg) (t : String) (h : msg.topic = some t) :
    (tellPubsub s msg none).tableOrder = s.tableOrder := by
  rw [C02_publish_is_the_table_walk s msg t h]
  exact tableOrder_key s _ (pubWalk_key msg t s.tableOrder s)

theorem tellIf_explicit (s : St) (msg : Msg) (key : TellKey) (r : ModId) (md : Mod) (q : List Msg)
    (hm : s.mods[r]? = some md) (he : md.state = .running ∨ md.state = .paused) (hp : md.pipe = some q)
    (hroom : q.length + md.pipeSkip < pipeCap) :
    (tellIf s msg key r).mods[r]? = some { md with pipe := some (q ++ [{ msg with sub := key.subOf, rcpt := some r }]) } := by
  have hr : (holderRef s msg.holder).mods = s.mods := by
    unfold holderRef; split
    · rfl
    · split <;> rfl
  have hlt : r < s.mods.length := (List.getElem?_eq_some_iff.mp hm).1
  have hget : s.mods[r] = md := (List.getElem?_eq_some_iff.mp hm).2
  have hst : (md.state == MState.running || md.state == MState.paused) = true := by rcases he with h | h <;> simp [h]
  unfold tellIf
  simp only [hm, hst, if_true, hp, hroom]
  unfold St.updMod
  simp [hr, hlt, hget]

theorem pubStep_srcs (msg : Msg) (t : String) (s : St) (r : ModId) : (pubStep msg t s r).srcs = s.srcs ∧ (pubStep msg t s r).rx = s.rx := by
  unfold pubStep
  split
  · split
    · split
      · exact tellIf_srcs s msg _ r
      · exact ⟨rfl, rfl⟩
    · exact ⟨rfl, rfl⟩
  · exact ⟨rfl, rfl⟩

theorem pubWalk_srcs (msg : Msg) (t : String) : ∀ (l : List ModId) (s : St), (pubWalk s msg t l).srcs = s.srcs ∧ (pubWalk s msg t l).rx = s.rx
  | [], _ => ⟨rfl, rfl⟩
  | r :: rs, s => by
    have a := pubWalk_srcs msg t rs (pubStep msg t s r)
    have b := pubStep_srcs msg t s r
    exact ⟨a.1.trans b.1, a.2.trans b.2⟩

theorem pubWalk_explicit (msg : Msg) (t : String) : ∀ (l : List ModId) (s : St), l.Nodup → ∀ (k : ModId) (md : Mod) (sub : SrcId) (q : List Msg),
    s.mods[k]? = some md → k ∈ l → (md.state = .running ∨ md.state = .paused) → fetchSub s md t = some sub → md.pipe = some q →
    q.length + md.pipeSkip < pipeCap →
    (pubWalk s msg t l).mods[k]? = some { md with pipe := some (q ++ [{ msg with sub := some sub, rcpt := some k }]) }
  | [], _, _, _, _, _, _, _, hk, _, _, _, _ => absurd hk (by simp)
  | r :: rs, s, hn, k, md, sub, q, hm, hk, he, hf, hp, hroom => by
    have hn' := List.nodup_cons.mp hn
    show (pubWalk (pubStep msg t s r) msg t rs).mods[k]? = _
    rcases List.mem_cons.mp hk with rfl | hk'
    · have hst : (md.state == MState.running || md.state == MState.paused) = true := by rcases he with h | h <;> simp [h]
      have hstep : pubStep msg t s k = tellIf s msg (.sub sub) k := by
        unfold pubStep; simp only [hm, hst, if_true, hf]
      rw [pubWalk_untouched msg t rs _ k hn'.1, hstep]
      exact tellIf_explicit s msg (.sub sub) k md q hm he hp hroom
    · have hkr : k ≠ r := fun e => hn'.1 (e ▸ hk')
      obtain ⟨o1, o2, o3⟩ := pubStep_other msg t s r k hkr
      have hm' : (pubStep msg t s r).mods[k]? = some md := by rw [o1]; exact hm
      have hf' : fetchSub (pubStep msg t s r) md t = some sub := by rw [fetchSub_congr s _ md t o2 o3]; exact hf
      exact pubWalk_explicit msg t rs _ hn'.2 k md sub q hm' hk' he hf' hp hroom

/-- the final flush hands over every pending message that was told directly or broadcast (no subscription involved): the
one-shot rule (D-03c) can only drop messages that reached the module through a one-shot subscription that already fired -/
theorem C02_flush_keeps_direct (m : ModId) : ∀ (pre : List Msg) (s : St) (x : Msg), x ∈ pre → x.sub = none → x ∈ flushKeep m pre s
  | [], _, _, h, _ => by cases h
  | y :: ys, s, x, h, hx => by
    unfold flushKeep
    rcases List.mem_cons.mp h with rfl | h
    · split
      · split
        · rename_i he; simp [oneshotExpired, hx] at he
        · exact List.mem_cons_self
      · exact List.mem_cons_self
    · split
      · split
        · exact C02_flush_keeps_direct m ys _ x h hx
        · exact List.mem_cons_of_mem _ (C02_flush_keeps_direct m ys _ x h hx)
      · exact List.mem_cons_of_mem _ (C02_flush_keeps_direct m ys _ x h hx)

/-- a message that reached the module through a subscription that is not one-shot is never dropped either -/
theorem C02_flush_keeps_persistent (m : ModId) (x : Msg) (s : St) (md : Mod) (i : SrcId) (src : Src)
    (hs : x.sub = some i) (hi : s.srcs[i]? = some src) (ho : src.oneshot = false) : oneshotExpired s md x = false := by
  simp [oneshotExpired, hs, hi, ho]

/-- tie A: the guard prefixes of the entry points this property is about, re-extracted from the source on every run,
are the ones the model transcribes (`Lm.Inst.CoreTie`) -/
theorem C02_guards_in_source :
    Lm.Inst.CoreTie.slice Lm.Generated.CoreGuards.guards ["m_mod_ps_tell", "m_mod_ps_publish", "send_msg"] = Lm.Inst.CoreTie.slice Lm.Inst.CoreTie.expected ["m_mod_ps_tell", "m_mod_ps_publish", "send_msg"] := by decide

end Lm.Props.C02
