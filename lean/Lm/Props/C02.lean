import Lm.Inst.CoreTie
import Lm.Inv.CoreSafe
import Lm.Inv.CoreGuards
/-! # C02 — Pub/sub: each accepted message reaches exactly its eligible recipients, once

Proved here about the sending side (`tell_if`, `tell_pubsub_msg`, the auto-free holder).  The end-to-end
conservation statement (every copy is delivered once or discarded for a stated reason) is **not** proved as a
theorem; it is checked on explored histories by the correspondence and by the oracle (see DESIGN.md). -/
namespace Lm.Props.C02
open Lm.Core

/-- handing a message to `r` never touches another module -/
theorem C02_nobody_else (s : St) (msg : Msg) (key : TellKey) (r k : ModId) (h : k ≠ r) :
    (tellIf s msg key r).mods[k]? = s.mods[k]? := by
  have hr : ∀ st : St, (holderRef st msg.holder).mods = st.mods := by
    intro st; unfold holderRef; split
    · rfl
    · split <;> rfl
  have hu : ∀ (st : St) (x : Msg), (destroyMsg st x).mods = st.mods := by
    intro st x; unfold destroyMsg holderUnref; split
    · rfl
    · split
      · simp only; split <;> rfl
      · rfl
  unfold tellIf
  split
  · rfl
  · split
    · simp only
      split
      · split
        · unfold St.updMod
          split
          · simp only [List.getElem?_set]
            have : ¬ r = k := fun e => h e.symm
            simp [this, hr]
          · rw [hr]
        · rw [hu, hr]
      · rw [hu, hr]
    · rfl

/-- a module that is neither RUNNING nor PAUSED is not eligible: nothing at all happens -/
theorem C02_not_eligible_no_effect (s : St) (msg : Msg) (key : TellKey) (r : ModId) (md : Mod) (hm : s.mods[r]? = some md)
    (h : md.state ≠ .running ∧ md.state ≠ .paused) : tellIf s msg key r = s := by
  unfold tellIf
  simp [hm, h.1, h.2]

/-- an eligible recipient with room in its mailbox gets exactly one copy, appended at the end, carrying the
sender, topic, payload pointer and system flag of the send -/
theorem C02_eligible_gets_one_copy (s : St) (msg : Msg) (key : TellKey) (r : ModId) (md : Mod) (q : List Msg)
    (hm : s.mods[r]? = some md) (he : md.state = .running ∨ md.state = .paused) (hp : md.pipe = some q) (hroom : q.length + md.pipeSkip < pipeCap) :
    ∃ copy md', (tellIf s msg key r).mods[r]? = some md' ∧ md'.pipe = some (q ++ [copy]) ∧
      copy.sender = msg.sender ∧ copy.topic = msg.topic ∧ copy.payload = msg.payload ∧ copy.sys = msg.sys ∧ md'.state = md.state ∧
      copy.pill = msg.pill ∧ md'.pipeSkip = md.pipeSkip := by
  have hr : (holderRef s msg.holder).mods = s.mods := by
    unfold holderRef; split
    · rfl
    · split <;> rfl
  have hlt : r < s.mods.length := (List.getElem?_eq_some_iff.mp hm).1
  have hget : s.mods[r] = md := (List.getElem?_eq_some_iff.mp hm).2
  have hst : (md.state == MState.running || md.state == MState.paused) = true := by
    rcases he with h | h <;> simp [h]
  unfold tellIf
  simp only [hm, hst, if_true, hp, hroom]
  refine ⟨{ msg with sub := key.subOf, rcpt := some r }, { md with pipe := some (q ++ [{ msg with sub := key.subOf, rcpt := some r }]) }, ?_, rfl, rfl, rfl, rfl, rfl, rfl, rfl, rfl⟩
  unfold St.updMod
  simp [hr, hm, hlt, hget]

/-- the reference on an auto-free payload holder: the payload is released exactly when the last reference goes … -/
theorem C02_autofree_released_with_last_reference (s : St) (i : HolderId) (n : Nat) (h : s.holders[i]? = some n) :
    (n = 1 → (holderUnref s (some i)).out = s.out ++ [.free (s.holderPayload[i]?.getD 0)]) ∧
    (n ≠ 1 → (holderUnref s (some i)).out = s.out) ∧ (holderUnref s (some i)).holders = s.holders.set i (n - 1) := by
  unfold holderUnref
  simp only [h]
  refine ⟨fun h1 => by simp [h1, St.emit], fun h1 => by simp [h1], ?_⟩
  split <;> rfl

/-- … and a payload sent without the auto-free flag is never released by the library: no holder, no release event -/
theorem C02_never_released_without_flag (s : St) : (holderUnref s none) = s ∧ (holderRef s none) = s := ⟨rfl, rfl⟩

/-- a tell to a recipient that is not eligible, with auto-free: the payload is released at once, exactly once -/
theorem C02_nobody_eligible_released_at_once (s : St) (m r : ModId) (md : Mod) (p : Nat)
    (hr : (s.updMod m fun x => { x with sent := x.sent + 1 }).mods[r]? = some md) (h : md.state ≠ .running ∧ md.state ≠ .paused)
    (hl : s.holders.length = s.holderPayload.length) :
    (sendMsg s m (some r) none p true).out = s.out ++ [.free p] := by
  unfold sendMsg
  simp only [if_true, tellPubsub]
  have hn : ∀ st : St, (newHolder st p).mods = st.mods := fun _ => rfl
  rw [C02_not_eligible_no_effect _ _ _ r md (by rw [hn]; exact hr) h]
  unfold holderUnref newHolder
  simp [St.emit, hl]


/-- the final flush hands over every pending message that was told directly or broadcast (no subscription involved): the
one-shot rule (D-03c) can only drop messages that reached the module through a one-shot subscription that already fired -/
theorem C02_flush_keeps_direct (m : ModId) : ∀ (pre : List Msg) (s : St) (x : Msg), x ∈ pre → x.sub = none → x ∈ flushKeep m pre s
  | [], _, _, h, _ => by cases h
  | y :: ys, s, x, h, hx => by
    unfold flushKeep
    rcases List.mem_cons.mp h with rfl | h
    · split
      · split
        · rename_i he; simp [oneshotExpired, hx] at he
        · exact List.mem_cons_self
      · exact List.mem_cons_self
    · split
      · split
        · exact C02_flush_keeps_direct m ys _ x h hx
        · exact List.mem_cons_of_mem _ (C02_flush_keeps_direct m ys _ x h hx)
      · exact List.mem_cons_of_mem _ (C02_flush_keeps_direct m ys _ x h hx)

/-- a message that reached the module through a subscription that is not one-shot is never dropped either -/
theorem C02_flush_keeps_persistent (m : ModId) (x : Msg) (s : St) (md : Mod) (i : SrcId) (src : Src)
    (hs : x.sub = some i) (hi : s.srcs[i]? = some src) (ho : src.oneshot = false) : oneshotExpired s md x = false := by
  simp [oneshotExpired, hs, hi, ho]

/-- tie A: the guard prefixes of the entry points this property is about, re-extracted from the source on every run,
are the ones the model transcribes (`Lm.Inst.CoreTie`) -/
theorem C02_guards_in_source :
    Lm.Inst.CoreTie.slice Lm.Generated.CoreGuards.guards ["m_mod_ps_tell", "m_mod_ps_publish", "send_msg"] = Lm.Inst.CoreTie.slice Lm.Inst.CoreTie.expected ["m_mod_ps_tell", "m_mod_ps_publish", "send_msg"] := by decide

end Lm.Props.C02
