import Lm.Generated.Mem
import Lm.Inv.Mem
/-!
# C10 — Ref-counted blocks: alive while referenced, destroyed exactly once

Property theorems only (helper lemmas live in `Lm.Inv.Mem`).  The layout theorems are about the
definitions regenerated from `Lib/mem/mem.c` on every run (`Lm.Generated.Mem`); the machine theorems
are about `Lm.Mem`, which the correspondence check ties to the compiled library.
-/
namespace Lm.Props.C10
open Lm.Mem Lm.Generated.Mem

/-! ## Layout of a block (every requested size) -/

/-- The user pointer is aligned for any object type, whatever the size: its offset from the
(max-aligned) allocation is a multiple of `alignof(max_align_t)`. -/
theorem C10_aligned (size : BitVec 64) : (dataOff size).toNat % maxAlign = 0 := by
  simp only [dataOff, maxAlign]; decide

/-- The byte holding the alignment shift lies after the header and right before the user data, and
`get_header` reads it back from exactly that place. -/
theorem C10_shift_byte (size : BitVec 64) :
    hdrSize ≤ (shiftOff size).toNat ∧ (shiftOff size).toNat + 1 = (dataOff size).toNat ∧
    dataOff size + hdrShiftReadOff = shiftOff size := by
  simp only [dataOff, shiftOff, hdrSize, hdrShiftReadOff]; decide

/-- `get_header` maps the user pointer back to the start of the allocation. -/
theorem C10_header_roundtrip (size : BitVec 64) : dataOff size + headerOff (shiftVal size) = 0#64 := by
  simp only [dataOff, headerOff, shiftVal]; decide

/-- The user data fits in the allocation: `dataOff + size ≤ allocSize` whenever the total does not
overflow `size_t` (requests that large are refused by the allocator). -/
theorem C10_fits (size : BitVec 64) (h : size.toNat + 64 < 2 ^ 64) :
    (dataOff size).toNat + size.toNat ≤ (allocSize size).toNat := by
  have e : allocSize size = 32#64 + size := by simp only [allocSize]; congr 1
  have d : (dataOff size).toNat = 32 := by simp only [dataOff]; decide
  rw [e, d, BitVec.toNat_add]
  have : (32#64).toNat = 32 := by decide
  rw [this, Nat.mod_eq_of_lt (by omega)]
  omega

/-- A new block starts with one reference and records the requested size. -/
theorem C10_initial (size : BitVec 64) : refsInit size = 1#64 ∧ sizeStored size = size ∧
    (refsOff size).toNat = offRefs ∧ (sizeOff size).toNat = offSize := by
  simp only [refsInit, sizeStored, refsOff, sizeOff, offRefs, offSize]; decide

/-! ## The reference-count machine (every history respecting the ownership precondition) -/

/-- No history that only passes handles the caller holds ever touches a released block (and the
nesting of destructors never exceeds the bound used by the model). -/
theorem C10_no_use_after_free (ops : List Op) (h : okRun {} ops = true) : (run {} ops).fault = false :=
  (run_good ops {} h good_init).nofault

/-- A block is alive exactly while somebody references it, and its counter is exactly the number
of references held by the caller plus those held by live destructors. -/
theorem C10_alive_iff_referenced (ops : List Op) (h : okRun {} ops = true) (i : Nat) (b : Block)
    (hb : (run {} ops).heap[i]? = some b) :
    (b.live = true ↔ 1 ≤ b.user + owners (run {} ops) i) ∧
    (b.live = true → b.refs = b.user + owners (run {} ops) i) := by
  have g := run_good ops {} h good_init
  constructor
  · constructor
    · intro hl
      obtain ⟨hr, hg, _⟩ := g.ref i b hb hl
      simp at hr; omega
    · intro hpos
      cases hl : b.live with
      | true => rfl
      | false =>
        have hu := g.dead i b hb hl
        have ho : 1 ≤ owners (run {} ops) i := by omega
        unfold owners at ho
        obtain ⟨c, hc, hp⟩ := List.countP_pos_iff.mp ho
        obtain ⟨k, hk, hkc⟩ := List.getElem_of_mem hc
        have hk' : (run {} ops).heap[k]? = some c := by simp [List.getElem?_eq_getElem hk, hkc]
        simp at hp
        obtain ⟨_, c', hc', hl'⟩ := (g.ref k c hk' hp.1).2.2 i hp.2
        rw [hb] at hc'; cases hc'; rw [hl] at hl'; cases hl'
  · intro hl
    have := (g.ref i b hb hl).1
    simpa using this

/-- The destructor runs exactly once per destroyed block that has one (never for a live block or a
block without destructor), the memory is released exactly once, exactly for dead blocks, and the
destructor of a block never runs after its release. -/
theorem C10_destroyed_exactly_once (ops : List Op) (h : okRun {} ops = true) (i : Nat) :
    let s := run {} ops
    s.log.count (Ev.free i) = (match s.heap[i]? with | some b => if b.live then 0 else 1 | none => 0) ∧
    s.log.count (Ev.dtor i) = (match s.heap[i]? with | some b => if !b.live && b.dtor then 1 else 0 | none => 0) ∧
    (∀ l1 l2, s.log = l1 ++ Ev.free i :: l2 → Ev.dtor i ∉ l2) := by
  have g := run_good ops {} h good_init
  have := g.log i
  refine ⟨?_, this.2.2, g.ord i⟩
  have h1 := this.2.1
  cases hb : (run {} ops).heap[i]? with
  | none => rw [hb] at h1; simpa using h1
  | some b => rw [hb] at h1; simpa using h1

/-- `m_mem_size` reports the size requested at creation, and whether a block has a destructor never changes. -/
theorem C10_size_reported (ops : List Op) (i : Nat) (b : Block)
    (hb : (run {} ops).heap[i]? = some b) : (newAttrs ops)[i]? = some (b.size, b.dtor) := by
  have := run_attrs ops {}
  simp only [attrs, List.map_nil, List.nil_append] at this
  rw [← this]
  simp [hb]

/-- Once the caller has dropped all its references every block has been released. -/
theorem C10_no_leak (ops : List Op) (h : okRun {} ops = true)
    (hu : ∀ (i : Nat) (b : Block), (run {} ops).heap[i]? = some b → b.user = 0) :
    ∀ (i : Nat) (b : Block), (run {} ops).heap[i]? = some b → b.live = false := by
  have g := run_good ops {} h good_init
  intro i b hb
  cases hl : b.live with
  | false => rfl
  | true =>
    obtain ⟨k, c, hk, _, hcu⟩ := live_has_user _ g.ref _ i b rfl hb hl
    have := hu k c hk
    omega

/-! ## Non-vacuity: concrete histories meeting the hypotheses, with nesting and sharing -/

/-- block 0 shared by the caller and two owners (1, 2); owner 2 is itself owned by 3 -/
def demo : List Op :=
  [.new 8 true none, .ref 0, .ref 0, .new 1 true (some 0), .new 0 true (some 0), .new 40 true (some 2),
   .size 0, .unref 1, .unref 0, .unref 3]

example : okRun {} demo = true := by decide
example : (run {} demo).log =
    [.dtor 1, .free 1, .dtor 3, .dtor 2, .dtor 0, .free 0, .free 2, .free 3] := by decide
example : (run {} demo).heap.all (fun b => b.user == 0 && !b.live) = true := by decide
/-- the precondition matters: dropping a reference twice is a use-after-free in the model too -/
example : (run {} [.new 8 false none, .unref 0, .unref 0]).fault = true := by decide

end Lm.Props.C10
