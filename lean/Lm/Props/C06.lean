import Lm.Inv.ThpoolHist
/-!
# C06 — Thread pool runs each accepted task exactly once and shuts down cleanly

Property theorems only.  They are about the transition system `Lm.Thpool` (one program counter per
pthread primitive / shared-state access group of `Lib/thpool/thpool.c` after the fix commits); trace
acceptance (`lmdriver thpool`, fed with schedules recorded from the compiled library under the
scheduler shim) ties that system to the code.

Quantification.  `Hist c ls s`: `s` is the state after the label sequence `ls` from the initial state
of the configuration `c` (any `max_threads ≥ 1`, eager / LAZY / DETACHED in any combination).  A label
sequence is an arbitrary interleaving, at the granularity of lock / condition / thread primitives and
shared-memory accesses, of: thread 0 (`m_thpool_new`, later `m_thpool_free`), any number of submitter
threads each issuing any number of `m_thpool_add` calls, and the pool workers — whose tasks may themselves call
`m_thpool_add` on the pool they run on, at any time, also while `m_thpool_free` is in progress — including spurious
wake-ups, the choice of the waiter a signal wakes, and `pthread_create` failures.  Nothing bounds the
number of threads or tasks.

Precondition (`okRun`, part of `Hist`; decidable on label sequences): the handle is live for every
`m_thpool_add` of a submitter thread (`m_thpool_new` has returned, `m_thpool_free` has not been called) and
`m_thpool_free` is called when no `m_thpool_add` of a submitter thread is in progress.  Submissions made by tasks have
no precondition: a running task keeps its pool alive.

What is *not* here: liveness beyond deadlock freedom (that every fair schedule terminates).
-/
namespace Lm.Props.C06
open Lm.Thpool

variable {c : Cfg} {ls : List Label} {s : State}

/-! ## Every accepted task is executed at most once, with the argument it was submitted with -/

/-- A task's function is called at most once; it is only called for a task the pool accepted. -/
theorem C06_exec_at_most_once (hc : 0 < c.maxThreads) (h : Hist c ls s) (k : TaskId) :
    (s.task k).execCount ≤ 1 ∧ ((s.task k).execCount = 1 ↔ (s.task k).started = true) ∧
    ((s.task k).started = true → (s.task k).accepted = true ∧ (s.task k).discarded = false) := by
  have hi := hist_inv hc h
  have e := hi.execCnt k
  refine ⟨?_, ?_, fun hs => ⟨hi.startAcc k hs, ?_⟩⟩
  · rw [e]; split <;> omega
  · rw [e]; cases (s.task k).started <;> simp
  · cases hd : (s.task k).discarded with
    | false => rfl
    | true => have := (hi.discInv k hd).2; rw [hs] at this; cases this

/-- If `m_thpool_add` was called for task `k` with argument `a` anywhere in the history, and the task
has been started, then its function was called with `a`. -/
theorem C06_own_argument (hc : 0 < c.maxThreads) (l1 l2 : List Label) (t : Tid) (k : TaskId) (a : Nat)
    (h : Hist c (l1 ++ ⟨t, .addCall k a⟩ :: l2) s) (hs : (s.task k).started = true) :
    (s.task k).ranWith = some a := by
  have hi := hist_inv hc h
  obtain ⟨s1, _, hr, _⟩ := hist_split h
  simp only [run] at hr
  cases hst : step s1 ⟨t, .addCall k a⟩ with
  | none => simp [hst] at hr
  | some s2 =>
    simp only [hst] at hr
    have e := addCall_effect hst
    have st := (stable_run k l2 s2 s hr).1 e.1
    rw [hi.ranArg k hs, st.2, e.2.1]

/-! ## At most `max_threads` threads, hence at most that many tasks running at a time -/

/-- The pool never has more than `max_threads` worker threads, and any set of tasks that are
simultaneously between start and completion has at most `max_threads` elements. -/
theorem C06_bounded_parallelism (hc : 0 < c.maxThreads) (h : Hist c ls s) :
    s.workers.length ≤ c.maxThreads ∧ (∀ u, isW (s.pc u) = true → u ∈ s.workers) ∧
    ∀ L : List TaskId, L.Nodup → (∀ k ∈ L, (s.task k).started = true ∧ (s.task k).finished = false) →
      L.length ≤ c.maxThreads := by
  have hi := hist_inv hc h
  have hw : s.workers.length ≤ c.maxThreads := by have := hi.workersLe; rwa [hist_cfg h] at this
  refine ⟨hw, fun u hu => (hi.workersIff u).mpr hu, fun L hL hrun => ?_⟩
  have hnd : (L.map fun k => (s.task k).runner).Nodup :=
    nodup_map_of_inj _ L hL (fun a ha b hb e => by
      have ra := (hi.runningInv a (hrun a ha).1 (hrun a ha).2).2
      have rb := (hi.runningInv b (hrun b hb).1 (hrun b hb).2).2
      have e' : (s.task a).runner = (s.task b).runner := e
      rw [← ra, ← rb, e'])
  have hsub : (L.map fun k => (s.task k).runner) ⊆ s.workers := by
    intro u hu
    obtain ⟨k, hk, rfl⟩ := List.mem_map.mp hu
    have := (hi.runningInv k (hrun k hk).1 (hrun k hk).2).1
    exact (hi.workersIff _).mpr (inTask_isW _ this)
  have := List.Nodup.length_le_of_subset hnd hsub
  simp only [List.length_map] at this
  omega

/-! ## Mutual exclusion and race freedom -/

/-- program counters at which `pool->tasks`, `pool->threads`, `pool->shutdown` or `pool->alive` is
read or written by code that runs under the pool mutex -/
def lockedAccess : Pc → Bool
  | .wLoop | .wBreakChk | .wBreakLen | .wDequeue | .wExitDec | .sShutChk | .sLazy1 | .sLazy2 | .sInsert | .sEnq
  | .nShutChk | .nLazy1 | .nLazy2 | .nInsert | .nEnq | .fSetShut | .fAliveChk => true
  | _ => false

/-- Every such access happens while the accessing thread owns the mutex, and the mutex has at most
one owner: two threads are never both inside a critical section. -/
theorem C06_mutual_exclusion (hc : 0 < c.maxThreads) (h : Hist c ls s) :
    (∀ u, lockedAccess (s.pc u) = true → s.lockOwner = some u) ∧
    (∀ u v, holds (s.pc u) = true → holds (s.pc v) = true → u = v) := by
  have hi := hist_inv hc h
  refine ⟨fun u hu => hi.mutex u ?_, fun u v hu hv => ?_⟩
  · revert hu; cases s.pc u <;> simp [lockedAccess]
  · have a := hi.mutex u hu
    have b := hi.mutex v hv
    rw [a] at b; cases b; rfl

/-- The accesses that are *not* under the mutex are exclusive for another reason: nobody else can be
at a conflicting access at the same time.
* (`m_thpool_add` reads `shutdown` with the lock held since D-06d: that access is covered by `C06_mutual_exclusion`;
  the first clause below now says that while `shutdown` is being written no submitter is anywhere inside `m_thpool_add`)
* `m_thpool_new` inserting into `threads` / incrementing `alive`: no `m_thpool_add` is running and no worker
  is at `alive--`;
* `wait_pool` iterating over `threads`, `m_list_free(threads)`: no `m_thpool_add` is running;
* `m_queue_free(tasks)`: no `m_thpool_add` is running and every worker has made its last pool access. -/
theorem C06_unlocked_accesses_exclusive (hc : 0 < c.maxThreads) (h : Hist c ls s) :
    (∀ u, isS (s.pc u) = true → s.pc 0 ≠ .fSetShut) ∧
    (s.pc 0 = .mNewInsert → ∀ u, isS (s.pc u) = false ∧ s.pc u ≠ .wExitDec) ∧
    ((s.pc 0 = .fJoinInit ∨ s.pc 0 = .fJoin ∨ s.pc 0 = .fListFree) → ∀ u, isS (s.pc u) = false) ∧
    (s.pc 0 = .fQueueFree → ∀ u, isS (s.pc u) = false ∧ (isW (s.pc u) = true → gone (s.pc u) = true)) := by
  have hi := hist_inv hc h
  have noS : s.pc 0 ≠ .mIdle → ∀ u, isS (s.pc u) = false := fun h0 u => by
    cases hS : isS (s.pc u) with
    | false => rfl
    | true => exact absurd (hi.liveHandle u hS) h0
  refine ⟨fun u hu h0 => ?_, fun h0 u => ⟨noS (by simp [h0]) u, fun hu => ?_⟩,
          fun h0 => noS (by rcases h0 with h0 | h0 | h0 <;> simp [h0]),
          fun h0 u => ⟨noS (by simp [h0]) u, hi.goneAll (Or.inl (by simp [h0])) u⟩⟩
  · have := hi.liveHandle u hu; rw [this] at h0; cases h0
  · exact hi.exitShut u (by simp [hu]) (hi.shutNo (by simp [h0]))

/-- **Submission and shutdown exclude each other** (D-06d).  `m_thpool_add` checks `shutdown` with the lock held; as long as
a submission — by a submitter thread or by a task running on the pool — is between that check and its unlock, `shutdown` is
`NO` and thread 0 has not got beyond the statement that writes it.  Hence once `wait_pool` has set `shutdown`
(`5 ≤ ph`), nobody inserts into `pool->threads` or into the task queue any more: the unlocked iteration over `threads`
and the frees that follow cannot race with a late submission, and no worker is created that `wait_pool` would not join. -/
theorem C06_add_excludes_shutdown (hc : 0 < c.maxThreads) (h : Hist c ls s) :
    (∀ u, pastChk (s.pc u) = true → s.shutdown = .no ∧ ph (s.pc 0) ≤ 4) ∧
    (5 ≤ ph (s.pc 0) → ∀ u, pastChk (s.pc u) = false) := by
  have hi := hist_inv hc h
  refine ⟨fun u hu => ⟨hi.pastChkNo u hu, ph_of_pastChk hi u hu⟩, fun h5 u => ?_⟩
  cases hp : pastChk (s.pc u) with
  | false => rfl
  | true => have := ph_of_pastChk hi u hp; omega

/-- A task may submit to the pool it runs on at any time.  When its check finds the pool shutting down, the call unlocks and
returns -EPERM into the task; queue, thread list and worker set are untouched. -/
theorem C06_task_submission_refused_during_shutdown (s : State) (t : Tid) (hp : s.pc t = .nShutChk) (hs : s.shutdown ≠ .no) :
    ∃ s1 s2 s3, step s ⟨t, .tau⟩ = some s1 ∧ step s1 ⟨t, .unlock⟩ = some s2 ∧ step s2 ⟨t, .addRet EPERM⟩ = some s3 ∧
      s3.pc t = .wInTask ∧ s3.tasks = s.tasks ∧ s3.threads = s.threads ∧ s3.workers = s.workers ∧ s3.alive = s.alive := by
  refine ⟨_, _, _, by simp [step, hp, hs]; rfl, by simp [step, State.goto]; rfl, by simp [step, State.goto]; rfl, ?_⟩
  simp [State.goto]

/-! ## `m_thpool_free` returns only when the work is done -/

/-- `free(wait_all = true)`: at its return point every accepted task has run to completion
(exactly once). -/
theorem C06_free_wait_all (hc : 0 < c.maxThreads) (h : Hist c ls s)
    (hret : s.pc 0 = .fRet ∨ s.pc 0 = .mDone) (hm : s.mode = true) (k : TaskId)
    (ha : (s.task k).accepted = true) : (s.task k).finished = true ∧ (s.task k).execCount = 1 := by
  have hi := hist_inv hc h
  have hph : 15 ≤ ph (s.pc 0) := by rcases hret with e | e <;> simp [e]
  have hgone := hi.goneAll (Or.inl (by omega))
  have hstarted : (s.task k).started = true := by
    cases hs : (s.task k).started with
    | true => rfl
    | false =>
      exfalso
      cases hd : (s.task k).discarded with
      | true => have := (hi.discPhase k hd).2; rw [hm] at this; cases this
      | false =>
        rcases hi.pendingInv k ha hs hd with hq | ⟨hh, _⟩
        · have := hi.tasksFreed (by omega); rw [this] at hq; cases hq
        · have hw : isW (s.pc (s.task k).runner) = true := by revert hh; cases s.pc (s.task k).runner <;> simp
          have := hgone _ hw
          revert hh this; cases s.pc (s.task k).runner <;> simp
  refine ⟨?_, by rw [hi.execCnt k, hstarted]; rfl⟩
  cases hf : (s.task k).finished with
  | true => rfl
  | false =>
    exfalso
    have hr := (hi.runningInv k hstarted hf).1
    have := hgone (s.task k).runner (inTask_isW _ hr)
    rw [inTask_not_gone _ hr] at this; cases this

/-- `free(wait_all = false)`: at its return point every task that had started has completed, and
every accepted task that had not started has been discarded without ever having run. -/
theorem C06_free_wait_curr (hc : 0 < c.maxThreads) (h : Hist c ls s)
    (hret : s.pc 0 = .fRet ∨ s.pc 0 = .mDone) (k : TaskId) :
    ((s.task k).started = true → (s.task k).finished = true) ∧
    ((s.task k).accepted = true → (s.task k).started = false → (s.task k).discarded = true ∧ (s.task k).execCount = 0) := by
  have hi := hist_inv hc h
  have hph : 15 ≤ ph (s.pc 0) := by rcases hret with e | e <;> simp [e]
  have hgone := hi.goneAll (Or.inl (by omega))
  refine ⟨fun hs => ?_, fun ha hs => ⟨?_, by rw [hi.execCnt k, hs]; rfl⟩⟩
  · cases hf : (s.task k).finished with
    | true => rfl
    | false =>
      exfalso
      have hr := (hi.runningInv k hs hf).1
      have := hgone (s.task k).runner (inTask_isW _ hr)
      rw [inTask_not_gone _ hr] at this; cases this
  · cases hd : (s.task k).discarded with
    | true => rfl
    | false =>
      exfalso
      rcases hi.pendingInv k ha hs hd with hq | ⟨hh, _⟩
      · have := hi.tasksFreed (by omega); rw [this] at hq; cases hq
      · have hw : isW (s.pc (s.task k).runner) = true := by revert hh; cases s.pc (s.task k).runner <;> simp
        have := hgone _ hw
        revert hh this; cases s.pc (s.task k).runner <;> simp

/-- A discarded task is never executed afterwards, however the history continues. -/
theorem C06_discarded_never_runs (hc : 0 < c.maxThreads) (l1 l2 : List Label) (s1 : State) (k : TaskId)
    (h1 : Hist c l1 s1) (hd : (s1.task k).discarded = true) (h : Hist c (l1 ++ l2) s) :
    (s.task k).discarded = true ∧ (s.task k).started = false ∧ (s.task k).execCount = 0 := by
  have hi := hist_inv hc h
  obtain ⟨s1', h1', hr, _⟩ := hist_split h
  have : s1' = s1 := by have := h1'.2; rw [h1.2] at this; cases this; rfl
  subst this
  have hd' := (stable_run k l2 s1' s hr).2 hd
  have hs := (hi.discInv k hd').2
  exact ⟨hd', hs, by rw [hi.execCnt k, hs]; rfl⟩

/-! ## After free nobody touches the pool (every flavour: eager, LAZY, DETACHED) -/

/-- From the moment the condition variable or the mutex is destroyed or the pool memory is freed —
in particular after `m_thpool_free` has returned — every pool thread is past its last access to the
pool (it is executing `return NULL` or has returned) and no `m_thpool_add` is in progress.  For
joinable pools every worker has moreover returned and been joined. -/
theorem C06_no_touch_after_free (hc : 0 < c.maxThreads) (h : Hist c ls s)
    (hf : s.condDestroyed = true ∨ s.mutexDestroyed = true ∨ s.poolFreed = true ∨ s.pc 0 = .mDone) (u : Tid) (hu : u ≠ 0) :
    (s.pc u = .none ∨ s.pc u = .sIdle ∨ s.pc u = .wRet ∨ s.pc u = .wDone) ∧
    (c.detached = false → s.pc u ≠ .wRet) := by
  have hi := hist_inv hc h
  have hph : 11 ≤ ph (s.pc 0) := by
    rcases hf with e | e | e | e
    · exact hi.flags.1 e
    · have := hi.flags.2.1 e; omega
    · have := hi.flags.2.2 e; omega
    · simp [e]
  have hM := hi.othersNotM u hu
  have hS : isS (s.pc u) = false := by
    cases hS : isS (s.pc u) with
    | false => rfl
    | true => have := hi.liveHandle u hS; simp [this] at hph
  have hG := hi.goneAll (Or.inl (by omega)) u
  refine ⟨?_, fun hd e => ?_⟩
  · revert hM hS hG; cases s.pc u <;> simp
  · have := hi.doneAll (by rw [hist_cfg h]; exact hd) (by omega) u (by simp [e])
    rw [e] at this; cases this

/-! ## No deadlock -/

/-- In every reachable state that is not final (final: `free` has returned, every worker has
returned, no `add` is in progress) some thread can take a step which is neither a spurious wake-up
nor a new `m_thpool_add` call, and the extended history again respects the precondition: neither
submission nor shutdown can get stuck, whatever the interleaving so far. -/
theorem C06_no_deadlock (hc : 0 < c.maxThreads) (h : Hist c ls s) (hnf : ¬ final s) :
    ∃ t a s', step s ⟨t, a⟩ = some s' ∧ a ≠ .spurious ∧ (∀ k v, a ≠ .addCall k v) ∧ Hist c (ls ++ [⟨t, a⟩]) s' := by
  obtain ⟨t, a, s', h1, h2, h3, h4⟩ := progress (hist_inv hc h) hnf
  exact ⟨t, a, s', h1, h3, h4, hist_snoc h h2 h1⟩

/-- In particular a dequeue never finds the queue empty (the `while` around `pthread_cond_wait`). -/
theorem C06_dequeue_nonempty (hc : 0 < c.maxThreads) (h : Hist c ls s) (u : Tid) (hu : s.pc u = .wDequeue) :
    s.tasks ≠ [] :=
  (hist_inv hc h).deqNonempty u hu

/-! ## Non-vacuity: recorded schedules of the real library are histories in the sense above -/

/-- eager pool, 2 workers, one submitter; the first worker runs (and is woken spuriously three times)
while `m_thpool_new` is still creating the second one; `free(wait_all)` -/
def demoEager : List Label :=
  [⟨0, .create 1⟩, ⟨1, .lock⟩, ⟨1, .qlen 0⟩, ⟨1, .wait⟩, ⟨0, .tins 1⟩, ⟨0, .create 2⟩, ⟨1, .spurious⟩, ⟨1, .reacq⟩, ⟨1, .qlen 0⟩, ⟨1, .wait⟩, ⟨1, .spurious⟩, ⟨1, .reacq⟩, ⟨1, .qlen 0⟩, ⟨1, .wait⟩, ⟨1, .spurious⟩, ⟨1, .reacq⟩, ⟨1, .qlen 0⟩, ⟨0, .tins 2⟩, ⟨1, .wait⟩, ⟨0, .newRet true⟩, ⟨2, .lock⟩, ⟨3, .addCall 0 5⟩, ⟨2, .qlen 0⟩, ⟨2, .wait⟩, ⟨3, .lock⟩, ⟨3, .tau⟩, ⟨3, .enq 0⟩, ⟨3, .signal (some 1)⟩, ⟨3, .unlock⟩, ⟨3, .addRet 0⟩, ⟨1, .reacq⟩, ⟨0, .freeCall true⟩, ⟨1, .qlen 1⟩, ⟨1, .tau⟩, ⟨1, .deq 0⟩, ⟨1, .unlock⟩, ⟨1, .tau⟩, ⟨0, .lock⟩, ⟨0, .tau⟩, ⟨0, .broadcast⟩, ⟨0, .unlock⟩, ⟨0, .tau⟩, ⟨1, .taskStart 0 5⟩, ⟨2, .reacq⟩, ⟨2, .qlen 0⟩, ⟨2, .tau⟩, ⟨2, .qlen 0⟩, ⟨2, .tau⟩, ⟨2, .unlock⟩, ⟨2, .exit⟩, ⟨1, .taskEnd 0⟩, ⟨1, .tau⟩, ⟨1, .lock⟩, ⟨1, .qlen 0⟩, ⟨1, .tau⟩, ⟨1, .qlen 0⟩, ⟨1, .tau⟩, ⟨1, .unlock⟩, ⟨0, .join 2⟩, ⟨1, .exit⟩, ⟨0, .join 1⟩, ⟨0, .tau⟩, ⟨0, .destroyCond⟩, ⟨0, .destroyMutex⟩, ⟨0, .qfree []⟩, ⟨0, .tfree⟩, ⟨0, .freePool⟩, ⟨0, .freeRet⟩]

/-- LAZY + DETACHED pool, two submitters racing, two workers created inside `m_thpool_add`;
`free(!wait_all)` waits for the detached workers on the condition variable and discards task 1 -/
def demoLazyDetached : List Label :=
  [⟨0, .newRet true⟩, ⟨2, .addCall 2 7⟩, ⟨1, .addCall 0 5⟩, ⟨2, .lock⟩, ⟨2, .tau⟩, ⟨2, .tau⟩, ⟨2, .tlen 0⟩, ⟨2, .tlen 0⟩, ⟨2, .create 3⟩, ⟨2, .tins 3⟩, ⟨2, .enq 2⟩, ⟨2, .signal none⟩, ⟨2, .unlock⟩, ⟨1, .lock⟩, ⟨1, .tau⟩, ⟨1, .tau⟩, ⟨2, .addRet 0⟩, ⟨1, .tlen 1⟩, ⟨1, .enq 0⟩, ⟨1, .signal none⟩, ⟨1, .unlock⟩, ⟨1, .addRet 0⟩, ⟨1, .addCall 1 6⟩, ⟨3, .lock⟩, ⟨3, .qlen 2⟩, ⟨3, .tau⟩, ⟨3, .deq 2⟩, ⟨3, .unlock⟩, ⟨3, .tau⟩, ⟨3, .taskStart 2 7⟩, ⟨1, .lock⟩, ⟨1, .tau⟩, ⟨1, .tau⟩, ⟨3, .taskEnd 2⟩, ⟨3, .tau⟩, ⟨1, .tlen 1⟩, ⟨1, .tlen 1⟩, ⟨1, .create 4⟩, ⟨1, .tins 4⟩, ⟨1, .enq 1⟩, ⟨1, .signal none⟩, ⟨1, .unlock⟩, ⟨4, .lock⟩, ⟨4, .qlen 2⟩, ⟨4, .tau⟩, ⟨1, .addRet 0⟩, ⟨4, .deq 0⟩, ⟨0, .freeCall false⟩, ⟨4, .unlock⟩, ⟨4, .tau⟩, ⟨4, .taskStart 0 5⟩, ⟨4, .taskEnd 0⟩, ⟨4, .tau⟩, ⟨0, .lock⟩, ⟨0, .tau⟩, ⟨0, .broadcast⟩, ⟨0, .tau⟩, ⟨0, .wait⟩, ⟨3, .lock⟩, ⟨3, .qlen 1⟩, ⟨3, .tau⟩, ⟨3, .tau⟩, ⟨3, .broadcast⟩, ⟨3, .unlock⟩, ⟨4, .lock⟩, ⟨3, .exit⟩, ⟨4, .qlen 1⟩, ⟨4, .tau⟩, ⟨4, .tau⟩, ⟨4, .broadcast⟩, ⟨4, .unlock⟩, ⟨4, .exit⟩, ⟨0, .reacq⟩, ⟨0, .tau⟩, ⟨0, .unlock⟩, ⟨0, .destroyCond⟩, ⟨0, .destroyMutex⟩, ⟨0, .qfree [1]⟩, ⟨0, .tfree⟩, ⟨0, .freePool⟩, ⟨0, .freeRet⟩]

/-- LAZY pool: the second `pthread_create` (inside `m_thpool_add`) fails; the call unlocks and returns the error (D-06b) -/
def demoCreateFailAdd : List Label :=
  [⟨0, .newRet true⟩, ⟨1, .addCall 0 5⟩, ⟨1, .lock⟩, ⟨1, .tau⟩, ⟨1, .tau⟩, ⟨1, .tlen 0⟩, ⟨1, .tlen 0⟩, ⟨1, .create 2⟩, ⟨1, .tins 2⟩, ⟨1, .enq 0⟩, ⟨1, .signal none⟩, ⟨1, .unlock⟩, ⟨2, .lock⟩, ⟨1, .addRet 0⟩, ⟨1, .addCall 1 6⟩, ⟨2, .qlen 1⟩, ⟨2, .tau⟩, ⟨2, .deq 0⟩, ⟨2, .unlock⟩, ⟨2, .tau⟩, ⟨1, .lock⟩, ⟨1, .tau⟩, ⟨1, .tau⟩, ⟨2, .taskStart 0 5⟩, ⟨2, .taskEnd 0⟩, ⟨2, .tau⟩, ⟨1, .tlen 1⟩, ⟨1, .tlen 1⟩, ⟨1, .createFail⟩, ⟨1, .unlock⟩, ⟨1, .addRet 11⟩, ⟨0, .freeCall true⟩, ⟨0, .lock⟩, ⟨0, .tau⟩, ⟨0, .broadcast⟩, ⟨0, .unlock⟩, ⟨0, .tau⟩, ⟨2, .lock⟩, ⟨2, .qlen 0⟩, ⟨2, .tau⟩, ⟨2, .qlen 0⟩, ⟨2, .tau⟩, ⟨2, .unlock⟩, ⟨2, .exit⟩, ⟨0, .join 2⟩, ⟨0, .tau⟩, ⟨0, .destroyCond⟩, ⟨0, .destroyMutex⟩, ⟨0, .qfree []⟩, ⟨0, .tfree⟩, ⟨0, .freePool⟩, ⟨0, .freeRet⟩]

/-- eager DETACHED pool of 3: the third `pthread_create` of `m_thpool_new` fails; the two workers
already started are shut down before the pool is destroyed (D-06c, D-06a) -/
def demoCreateFailNew : List Label :=
  [⟨0, .create 1⟩, ⟨0, .tins 1⟩, ⟨0, .create 2⟩, ⟨0, .tins 2⟩, ⟨0, .createFail⟩, ⟨0, .lock⟩, ⟨0, .tau⟩, ⟨0, .broadcast⟩, ⟨0, .tau⟩, ⟨0, .wait⟩, ⟨2, .lock⟩, ⟨2, .qlen 0⟩, ⟨2, .tau⟩, ⟨2, .tau⟩, ⟨2, .broadcast⟩, ⟨2, .unlock⟩, ⟨0, .reacq⟩, ⟨0, .tau⟩, ⟨0, .wait⟩, ⟨1, .lock⟩, ⟨2, .exit⟩, ⟨1, .qlen 0⟩, ⟨1, .tau⟩, ⟨1, .tau⟩, ⟨1, .broadcast⟩, ⟨1, .unlock⟩, ⟨0, .reacq⟩, ⟨0, .tau⟩, ⟨0, .unlock⟩, ⟨0, .destroyCond⟩, ⟨0, .destroyMutex⟩, ⟨0, .qfree []⟩, ⟨0, .tfree⟩, ⟨1, .exit⟩, ⟨0, .freePool⟩, ⟨0, .newRet false⟩]

/-- LAZY pool, `free(!wait_all)`: the running task submits a follow-up task while `wait_pool` is shutting the pool down; the
call finds `shutdown` set (checked with the lock held) and returns -EPERM (D-06d) -/
def demoNestedRefused : List Label :=
  [⟨0, .newRet true⟩, ⟨1, .addCall 0 100⟩, ⟨1, .lock⟩, ⟨1, .tau⟩, ⟨1, .tau⟩, ⟨1, .tlen 0⟩, ⟨1, .tlen 0⟩, ⟨1, .create 2⟩, ⟨1, .tins 2⟩, ⟨1, .enq 0⟩, ⟨1, .signal none⟩, ⟨1, .unlock⟩, ⟨2, .lock⟩, ⟨2, .qlen 1⟩, ⟨1, .addRet 0⟩, ⟨2, .tau⟩, ⟨2, .deq 0⟩, ⟨0, .freeCall false⟩, ⟨2, .unlock⟩, ⟨2, .tau⟩, ⟨2, .taskStart 0 100⟩, ⟨0, .lock⟩, ⟨0, .tau⟩, ⟨0, .broadcast⟩, ⟨2, .addCall 128 0⟩, ⟨0, .unlock⟩, ⟨0, .tau⟩, ⟨2, .lock⟩, ⟨2, .tau⟩, ⟨2, .unlock⟩, ⟨2, .addRet (-1)⟩, ⟨2, .taskEnd 0⟩, ⟨2, .tau⟩, ⟨2, .lock⟩, ⟨2, .qlen 0⟩, ⟨2, .tau⟩, ⟨2, .tau⟩, ⟨2, .unlock⟩, ⟨2, .exit⟩, ⟨0, .join 2⟩, ⟨0, .tau⟩, ⟨0, .destroyCond⟩, ⟨0, .destroyMutex⟩, ⟨0, .qfree []⟩, ⟨0, .tfree⟩, ⟨0, .freePool⟩, ⟨0, .freeRet⟩]

/-- LAZY pool of one thread, `free(!wait_all)`: the running task's follow-up task is accepted just before the shutdown starts
and is discarded, never run, by `m_queue_free` -/
def demoNestedAccepted : List Label :=
  [⟨0, .newRet true⟩, ⟨1, .addCall 0 100⟩, ⟨1, .lock⟩, ⟨1, .tau⟩, ⟨1, .tau⟩, ⟨1, .tlen 0⟩, ⟨1, .tlen 0⟩, ⟨1, .create 2⟩, ⟨1, .tins 2⟩, ⟨1, .enq 0⟩, ⟨1, .signal none⟩, ⟨1, .unlock⟩, ⟨2, .lock⟩, ⟨1, .addRet 0⟩, ⟨0, .freeCall false⟩, ⟨2, .qlen 1⟩, ⟨2, .tau⟩, ⟨2, .deq 0⟩, ⟨2, .unlock⟩, ⟨2, .tau⟩, ⟨2, .taskStart 0 100⟩, ⟨2, .addCall 128 0⟩, ⟨2, .lock⟩, ⟨2, .tau⟩, ⟨2, .tau⟩, ⟨2, .tlen 1⟩, ⟨2, .tlen 1⟩, ⟨2, .enq 128⟩, ⟨2, .signal none⟩, ⟨2, .unlock⟩, ⟨0, .lock⟩, ⟨0, .tau⟩, ⟨0, .broadcast⟩, ⟨2, .addRet 0⟩, ⟨2, .taskEnd 0⟩, ⟨0, .unlock⟩, ⟨2, .tau⟩, ⟨2, .lock⟩, ⟨0, .tau⟩, ⟨2, .qlen 1⟩, ⟨2, .tau⟩, ⟨2, .tau⟩, ⟨2, .unlock⟩, ⟨2, .exit⟩, ⟨0, .join 2⟩, ⟨0, .tau⟩, ⟨0, .destroyCond⟩, ⟨0, .destroyMutex⟩, ⟨0, .qfree [128]⟩, ⟨0, .tfree⟩, ⟨0, .freePool⟩, ⟨0, .freeRet⟩]

def summary (c : Cfg) (ls : List Label) (tasks : List TaskId) : Option (Pc × Bool × List (Nat × Bool × Bool)) :=
  (run (init c) ls).map fun s => (s.pc 0, s.poolFreed, tasks.map fun k => ((s.task k).execCount, (s.task k).finished, (s.task k).discarded))

example : okRun (init ⟨2, false, false⟩) demoEager = true := by decide
example : summary ⟨2, false, false⟩ demoEager [0] = some (.mDone, true, [(1, true, false)]) := by decide
example : okRun (init ⟨2, true, true⟩) demoLazyDetached = true := by decide
example : summary ⟨2, true, true⟩ demoLazyDetached [0, 1, 2] =
    some (.mDone, true, [(1, true, false), (0, false, true), (1, true, false)]) := by decide
example : okRun (init ⟨2, true, false⟩) demoCreateFailAdd = true := by decide
example : summary ⟨2, true, false⟩ demoCreateFailAdd [0, 1] = some (.mDone, true, [(1, true, false), (0, false, false)]) := by decide
example : okRun (init ⟨3, false, true⟩) demoCreateFailNew = true := by decide
example : summary ⟨3, false, true⟩ demoCreateFailNew [] = some (.mDone, true, []) := by decide

example : okRun (init ⟨2, true, false⟩) demoNestedRefused = true := by decide
example : summary ⟨2, true, false⟩ demoNestedRefused [0, 128] = some (.mDone, true, [(1, true, false), (0, false, false)]) := by decide
example : okRun (init ⟨1, true, false⟩) demoNestedAccepted = true := by decide
example : summary ⟨1, true, false⟩ demoNestedAccepted [0, 128] = some (.mDone, true, [(1, true, false), (0, false, true)]) := by decide

/-- the precondition is a real restriction: calling `free` while an `add` is in progress is refused … -/
example : okRun (init ⟨1, true, false⟩) [⟨0, .newRet true⟩, ⟨1, .addCall 0 5⟩, ⟨0, .freeCall true⟩] = false := by decide
/-- … and so is an `add` on a handle that `free` has already been called on -/
example : okRun (init ⟨1, true, false⟩) [⟨0, .newRet true⟩, ⟨0, .freeCall true⟩, ⟨1, .addCall 0 5⟩] = false := by decide
/-- the model has deadlocks-by-construction for broken variants only: a `signal` that wakes nobody is
accepted only when nobody waits -/
example : (run (init ⟨1, false, false⟩) [⟨0, .create 1⟩, ⟨0, .tins 1⟩, ⟨1, .lock⟩, ⟨1, .qlen 0⟩, ⟨1, .wait⟩, ⟨0, .newRet true⟩, ⟨2, .addCall 0 5⟩, ⟨2, .lock⟩, ⟨2, .tau⟩, ⟨2, .enq 0⟩, ⟨2, .signal none⟩]).isNone = true := by decide

end Lm.Props.C06
