import Lm.Inst.CoreTie
import Lm.Inv.CoreSafe
import Lm.Inv.CoreGuards
/-! # C15 — Names unique; deny, persist and reserved-topic restrictions enforced -/
namespace Lm.Props.C15
open Lm.Core

/-- in every reachable configuration (any history, any callback programs) two different modules of the
context's table never share a name -/
theorem C15_names_unique (ops : List Op) (m n : ModId) (a b : Mod)
    (ha : (run {} ops).st.mods[m]? = some a) (hb : (run {} ops).st.mods[n]? = some b)
    (hia : a.inCtx = true) (hib : b.inCtx = true) (hname : a.name = b.name) : m = n :=
  (reach_inv ops).1.names m n a.sig b.sig (by rw [sigs_getElem?, ha]; rfl) (by rw [sigs_getElem?, hb]; rfl) hia hib hname

/-- registering under a live name fails with -EEXIST and changes nothing, unless the existing module allows replacement -/
theorem C15_duplicate_name_refused (s : St) (c : Ctx) (name : String) (slot flags hooks) (old : ModId) (omd : Mod)
    (hn : name ≠ "") (hc : mctx s = some c) (hf : c.finalized = false) (ho : s.modByName name = some old)
    (hm : s.mods[old]? = some omd) (hr : omd.flags.allowReplace = false) :
    Refuses (apiRegister name slot flags hooks) s EEXIST := by
  have : name.isEmpty = false := by
    cases hne : name.isEmpty with
    | false => rfl
    | true => exact absurd (String.isEmpty_iff.mp hne) hn
  simp [Refuses, apiRegister, this, hc, hf, ho, hm, hr]

/-- DENY_PUB: tell, publish, broadcast and poison pill fail and change nothing -/
theorem C15_deny_pub (s : St) (m : ModId) (md : Mod) (hm : s.mods[m]? = some md) (hd : md.flags.denyPub = true) :
    (∀ r p af, ∃ code : Int, code < 0 ∧ Refuses (apiTell m r p af) s code) ∧
    (∀ t p af, ∃ code : Int, code < 0 ∧ Refuses (apiPublish m t p af) s code) ∧
    (∀ r, ∃ code : Int, code < 0 ∧ Refuses (apiPill m r) s code) :=
  ⟨fun _ _ _ => guarded_refuses_perm s m md _ _ _ _ hm hd, fun _ _ _ => guarded_refuses_perm s m md _ _ _ _ hm hd,
   fun _ => guarded_refuses_perm s m md _ _ _ _ hm hd⟩

/-- DENY_SUB: subscribe and unsubscribe fail and change nothing -/
theorem C15_deny_sub (s : St) (m : ModId) (md : Mod) (hm : s.mods[m]? = some md) (hd : md.flags.denySub = true) :
    (∀ t sl p pb os u, ∃ code : Int, code < 0 ∧ Refuses (apiSubscribe m t sl p pb os u) s code) ∧
    (∀ t, ∃ code : Int, code < 0 ∧ Refuses (apiUnsubscribe m t) s code) :=
  ⟨fun _ _ _ _ _ _ => guarded_refuses_perm s m md _ _ _ _ hm hd, fun _ => guarded_refuses_perm s m md _ _ _ _ hm hd⟩

/-- DENY_CTX: while a callback of such a module is the executing one, `m_ctx()` yields nothing … -/
theorem C15_deny_ctx_hides_context (s : St) (c : Ctx) (cm : ModId) (md : Mod) (hc : s.ctx = some c)
    (hcur : c.currMod = some cm) (hm : s.mods[cm]? = some md) (hd : md.flags.denyCtx = true) : mctx s = none := by
  simp [mctx, hc, hcur, hm, hd]

/-- … hence every context call fails with -EPIPE and changes nothing (`ctx_calls_refused`), and so does every
guarded module call (with -EPERM) -/
theorem C15_deny_ctx_refuses (s : St) (h : mctx s = none) :
    (Refuses ctxDeregisterP s EPIPE ∧ Refuses apiFinalize s EPIPE ∧ Refuses apiDispatch s EPIPE ∧ Refuses apiLoop s EPIPE ∧
     (∀ c, Refuses (apiQuit c) s EPIPE) ∧ Refuses apiCtxLen s EPIPE ∧ (∀ n, Refuses (apiSetTick n) s EPIPE) ∧
     (∀ n sl f hk, n ≠ "" → Refuses (apiRegister n sl f hk) s EPIPE)) ∧
    (∀ (m : ModId) (md : Mod), s.mods[m]? = some md → md.state ≠ .zombie → modAssert s m = some EPERM) := by
  refine ⟨ctx_calls_refused s h, fun m md hm hz => ?_⟩
  have : (md.state == MState.zombie) = false := by simp [hz]
  simp [modAssert, hm, this, h]

/-- the executing module is restored after a nested callback: `optional_hook` / `call_pubsub_cb` bracket the user
callback with `curr_mod = mod` … `curr_mod = <what it was>`; for a hook that changes nothing the bracket is the identity
on `curr_mod` (before the fix it reset it to NULL, so a DENY_CTX module regained the context after any nested hook) -/
theorem C15_curr_mod_restored (m : ModId) (s : St) (c : Ctx) (hc : s.ctx = some c) (hid : c.id = s.ctxIdOf m) :
    currOf (setCurrOf m (currOfMod s m) (setCurrOf m (some m) s)) = currOf s := by
  have e1 : setCurrOf m (some m) s = { s with ctx := some { c with currMod := some m } } := by
    simp [setCurrOf, St.updCtxId, hc, hid]
  have e0 : currOfMod s m = c.currMod := by simp [currOfMod, hc, hid]
  rw [e1, e0]
  have e2 : ({ s with ctx := some { c with currMod := some m } } : St).ctxIdOf m = s.ctxIdOf m := rfl
  have hb : (c.id == s.ctxIdOf m) = true := by simp [hid]
  unfold setCurrOf St.updCtxId
  simp only [e2, hb, if_true, currOf, hc]

/-- PERSIST: a direct deregistration while the context loops fails with -EPERM and changes nothing -/
theorem C15_persist_refused (s : St) (m : ModId) (md : Mod) (c : Ctx) (hm : s.mods[m]? = some md) (hc : s.ctx = some c)
    (hma : modAssert s m = none) (hp : md.flags.persist = true) (hl : c.state = .looping) :
    Refuses (modDeregisterP m) s EPERM := by
  simp [Refuses, modDeregisterP, modDeregCore, hma, hm, hc, hp, hl]

/-- publishing on the reserved system-topic prefix is always refused, without effect -/
theorem C15_reserved_topic_refused (s : St) (m : ModId) (t : String) (p : Nat) (af : Bool) (ht : isSystemTopic t = true) :
    ∃ code : Int, code < 0 ∧ Refuses (apiPublish m (some t) p af) s code := by
  unfold Refuses apiPublish guarded
  simp only [runP_getSt_bind]
  cases hma : modAssert s m with
  | some e => exact ⟨e, modAssert_neg s m e hma, by simp⟩
  | none =>
    cases hm : s.mods[m]? with
    | none => exact ⟨EINVAL, by decide, by simp⟩
    | some md =>
      by_cases hd : md.flags.denyPub = true
      · exact ⟨EPERM, by decide, by simp [hd]⟩
      · exact ⟨EPERM, by decide, by simp [hd, ht]⟩

example : isSystemTopic "LIBMODULE_CTX_STARTED" = true := by decide
example : isSystemTopic "ta" = false := by decide


/-- tie A: the guard prefixes of the entry points this property is about, re-extracted from the source on every run,
are the ones the model transcribes (`Lm.Inst.CoreTie`) -/
theorem C15_guards_in_source :
    Lm.Inst.CoreTie.slice Lm.Generated.CoreGuards.guards ["m_mod_register", "mod_deregister", "m_mod_ps_tell", "m_mod_ps_publish", "m_mod_ps_poisonpill", "m_mod_ps_subscribe", "m_mod_ps_unsubscribe"] = Lm.Inst.CoreTie.slice Lm.Inst.CoreTie.expected ["m_mod_register", "mod_deregister", "m_mod_ps_tell", "m_mod_ps_publish", "m_mod_ps_poisonpill", "m_mod_ps_subscribe", "m_mod_ps_unsubscribe"] := by decide

end Lm.Props.C15
