import Lm.Inst.CoreTie
import Lm.Inv.CoreSafe
import Lm.Inv.CoreGuards
/-! # C07 — Context lifecycle: one per thread, teardown deregisters every module -/
namespace Lm.Props.C07
open Lm.Core

/-- each thread has at most one context: a second registration fails with -EEXIST and changes nothing -/
theorem C07_one_context_per_thread (s : St) (c : Ctx) (p : Bool) (h : s.ctx = some c) : Refuses (apiCtxRegister p) s EEXIST := by
  simp [Refuses, apiCtxRegister, h]

/-- with no context on the thread every context call fails with -EPIPE and every module operation with a
negative code, and nothing changes -/
theorem C07_no_context_no_effect (s : St) (h : s.ctx = none) :
    (Refuses ctxDeregisterP s EPIPE ∧ Refuses apiFinalize s EPIPE ∧ Refuses apiDispatch s EPIPE ∧ Refuses apiLoop s EPIPE ∧
     (∀ c, Refuses (apiQuit c) s EPIPE) ∧ Refuses apiCtxLen s EPIPE ∧ (∀ n, Refuses (apiSetTick n) s EPIPE) ∧
     (∀ n sl f hk, n ≠ "" → Refuses (apiRegister n sl f hk) s EPIPE)) ∧
    (∀ (m : ModId) deny mask tok body, ∃ code : Int, code < 0 ∧ Refuses (guarded m deny mask tok body) s code) ∧
    (∀ m, ∃ code : Int, code < 0 ∧ Refuses (apiStart m) s code) ∧
    (∀ m, ∃ code : Int, code < 0 ∧ Refuses (modDeregisterP m) s code) := by
  have hm : mctx s = none := by simp [mctx, h]
  have hma : ∀ m, ∃ e, modAssert s m = some e := by
    intro m
    unfold modAssert
    cases s.mods[m]? with
    | none => exact ⟨_, rfl⟩
    | some md => simp only; split
                 · exact ⟨_, rfl⟩
                 · simp [hm]
  refine ⟨ctx_calls_refused s hm, fun m deny mask tok body => ?_, fun m => ?_, fun m => ?_⟩
  · obtain ⟨e, he⟩ := hma m
    exact ⟨e, modAssert_neg s m e he, by simp [Refuses, guarded, he]⟩
  · obtain ⟨e, he⟩ := hma m
    exact ⟨e, modAssert_neg s m e he, by simp [Refuses, apiStart, he]⟩
  · obtain ⟨e, he⟩ := hma m
    exact ⟨e, modAssert_neg s m e he, by simp [Refuses, modDeregisterP, modDeregCore, he]⟩

/-- a looping context refuses to be deregistered -/
theorem C07_looping_context_refuses (s : St) (c : Ctx) (h : mctx s = some c) (hl : c.state = .looping) :
    Refuses ctxDeregisterP s EINVAL := by
  simp [Refuses, ctxDeregisterP, h, hl]

/-- after a context has been finalised no further module can be registered in it -/
theorem C07_finalized_refuses_registration (s : St) (c : Ctx) (n : String) (sl f hk) (hn : n ≠ "")
    (h : mctx s = some c) (hf : c.finalized = true) : Refuses (apiRegister n sl f hk) s EPERM := by
  have : n.isEmpty = false := by
    cases hne : n.isEmpty with
    | false => rfl
    | true => exact absurd (String.isEmpty_iff.mp hne) hn
  simp [Refuses, apiRegister, this, h, hf]

/-- after it is released the thread can register a fresh context (a new object: new identity, no module, counter 0) -/
theorem C07_fresh_context_after_release (s : St) (p : Bool) (h : s.ctx = none) :
    runP (apiCtxRegister p) s = ({ s with ctx := some { persist := p, id := s.nextCtx }, nextCtx := s.nextCtx + 1 }, .inl 0) := by
  simp [apiCtxRegister, h]

/-- teardown releases the context: when `m_ctx_deregister` goes through (idle, not already being torn down) the
thread has no context afterwards — for every behaviour of the stop hooks it runs -/
theorem C07_deregister_releases (s : St) (c : Ctx) (h : mctx s = some c) (hi : c.state = .idle) (hd : c.destroying = false) :
    wp (fun _ => True) ctxDeregisterP (fun code s' => code = 0 ∧ s'.ctx = none) s := by
  have triv : ∀ {α} (p : Prog α) (st : St), wp (fun _ => True) p (fun _ _ => True) st := by
    intro α p
    induction p with
    | pure a => intro st; trivial
    | get k ih => intro st; exact ih st st
    | set s' p ih => intro st; exact ih s'
    | call cb m e k ih => intro st; exact ⟨trivial, fun b s' _ => ih b s'⟩
  unfold ctxDeregisterP
  simp only [wp_bind', wp_getSt, h, hi, hd]
  simp only [bne_self_eq_false, Bool.false_eq_true, if_false, wp_bind', wp_modify]
  refine wp_mono _ _ _ _ _ (fun _ s' _ => ?_) (triv _ _)
  simp [wp]

/-- the invariants of C01 survive context teardown and re-registration: a fresh context starts with counter 0
and no RUNNING module counted against it (`reach_inv` for histories containing `ctx_dereg`/`ctx_reg`) -/
theorem C07_counter_across_contexts (ops : List Op) (c : Ctx) (h : (run {} ops).st.ctx = some c) :
    c.running = runCount (run {} ops).st.sigs c.id := (reach_inv ops).1.run c h

def demo : List Op :=
  [.ctxReg false, .ctxReg false, .reg "h0" "A" 5 {} { stop := true }, .start 0, .ctxDereg, .ret true, .ctxLen, .ctxReg true]

example : ((run {} demo).st.mods.map (·.state)) = [.zombie] := by decide
example : ((run {} demo).st.ctx.map (·.id)) = some 1 := by decide
example : ((run {} (demo.take 7)).st.ctx.isNone) = true := by decide


/-- tie A: the guard prefixes of the entry points this property is about, re-extracted from the source on every run,
are the ones the model transcribes (`Lm.Inst.CoreTie`) -/
theorem C07_guards_in_source :
    Lm.Inst.CoreTie.slice Lm.Generated.CoreGuards.guards ["m_ctx_register", "m_ctx_deregister", "m_ctx_loop", "m_ctx_dispatch", "m_ctx_quit", "m_ctx_finalize", "m_ctx_len", "m_mod_register"] = Lm.Inst.CoreTie.slice Lm.Inst.CoreTie.expected ["m_ctx_register", "m_ctx_deregister", "m_ctx_loop", "m_ctx_dispatch", "m_ctx_quit", "m_ctx_finalize", "m_ctx_len", "m_mod_register"] := by decide

end Lm.Props.C07
