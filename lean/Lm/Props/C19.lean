import Lm.Inst.CoreTie
import Lm.Props.C02
/-! # C19 — System notifications mirror loop and module transitions one-to-one

Each occurrence (loop started/stopped, module entered/left RUNNING, tick) is one call of `tell_system_pubsub_msg`
placed at the corresponding point of `loop_start`, `loop_stop`, `start`, `stop`, `process_tick`; the message it
builds is system-flagged, payload-less and names the module concerned as sender; delivery then follows C02/C08. -/
namespace Lm.Props.C19
open Lm.Core

/-- the shape of every notification: system flag set, no payload, the given topic and sender, never auto-freed -/
theorem C19_notification_shape (s : St) (recipient sender : Option ModId) (topic : String) (r : ModId) (md : Mod) (q : List Msg)
    (hm : (match sender with | some m => s.updMod m (fun x => { x with sent := x.sent + 1 }) | none => s).mods[r]? = some md)
    (he : md.state = .running ∨ md.state = .paused) (hp : md.pipe = some q) (hroom : q.length + md.pipeSkip < pipeCap) :
    ∃ c md', (tellSystem s (some r) sender topic).mods[r]? = some md' ∧ md'.pipe = some (q ++ [c]) ∧
      c.sys = true ∧ c.payload = 0 ∧ c.topic = some topic ∧ c.sender = sender := by
  unfold tellSystem tellPubsub
  simp only
  obtain ⟨c, md', h1, h2, h3, h4, h5, h6, _, _⟩ := Lm.Props.C02.C02_eligible_gets_one_copy _
    { sender := sender, topic := some topic, payload := 0, sys := true, holder := none, sub := none, pill := false } .direct r md q hm he hp hroom
  exact ⟨c, md', h1, h2, h6, h5, h4, h3⟩

/-- a module that is neither RUNNING nor PAUSED is sent nothing -/
theorem C19_only_running_or_paused (s : St) (msg : Msg) (key : TellKey) (r : ModId) (md : Mod) (hm : s.mods[r]? = some md)
    (h : md.state ≠ .running ∧ md.state ≠ .paused) : tellIf s msg key r = s :=
  Lm.Props.C02.C02_not_eligible_no_effect s msg key r md hm h

/-- user code cannot forge a notification: publishing on the reserved prefix is refused (C15) and messages built by
`send_msg` never carry the system flag -/
theorem C19_user_messages_never_system (s : St) (m r : ModId) (md : Mod) (q : List Msg) (p : Nat) (topic : Option String)
    (hm : (s.updMod m fun x => { x with sent := x.sent + 1 }).mods[r]? = some md) (he : md.state = .running ∨ md.state = .paused)
    (hp : md.pipe = some q) (hroom : q.length + md.pipeSkip < pipeCap) :
    ∃ c md', (sendMsg s m (some r) topic p false).mods[r]? = some md' ∧ md'.pipe = some (q ++ [c]) ∧ c.sys = false ∧ c.payload = p := by
  unfold sendMsg tellPubsub
  simp only [Bool.false_eq_true, if_false]
  obtain ⟨c, md', h1, h2, _, _, h5, h6, _, _⟩ := Lm.Props.C02.C02_eligible_gets_one_copy _
    { sender := some m, topic := topic, payload := p, sys := false, holder := none, sub := none } .direct r md q hm he hp hroom
  exact ⟨c, md', h1, h2, h6, h5⟩

/-- pause and resume notify like stop and start do (the module left / entered RUNNING), a refused start notifies only
the stop: the notification calls sit in `start()`/`stop()` themselves, which all four transitions go through — see the
program texts `startP`, `stopP`; this lemma records that the pause program ends with the MOD_STOPPED notification -/
theorem C19_pause_notifies (m : ModId) (s : St) :
    runP (stopP m false) s =
      (tellSystem (stopStep (manageSrcsRm s m false) m .paused false) none (some m) T_MOD_STOPPED, .inl 0) := by
  unfold stopP
  simp only [runP_modify_bind, runP_getSt_bind, Bool.false_eq_true, if_false, pure_bind']
  have : (0 : Int) ≠ ENOENT := by decide
  simp [this]


/-- **One notification per occurrence and subscriber**: a notification without recipient (loop started / stopped, module
started / stopped, tick) is one walk over the module table; exactly the RUNNING or PAUSED modules holding a subscription that
matches the system topic get exactly one copy, system-flagged and payload-less, tagged with that subscription; every other
module is untouched (`C02_publish_exactly_the_subscribed` for the message `tell_system_pubsub_msg` builds). -/
theorem C19_one_notification_per_subscriber (s : St) (topic : String) (k : ModId) (md : Mod) (hm : s.mods[k]? = some md) :
    (k ∈ s.tableOrder → ((md.state ≠ .running ∧ md.state ≠ .paused) ∨ fetchSub s md topic = none) →
      (tellSystem s none none topic).mods[k]? = some md) ∧
    (k ∈ s.tableOrder → (md.state = .running ∨ md.state = .paused) → ∀ sub, fetchSub s md topic = some sub → ∀ q, md.pipe = some q →
      q.length + md.pipeSkip < pipeCap →
      ∃ copy md', (tellSystem s none none topic).mods[k]? = some md' ∧ md'.pipe = some (q ++ [copy]) ∧ copy.payload = 0 ∧
        copy.sys = true ∧ copy.topic = some topic ∧ copy.sub = some sub ∧ md'.state = md.state) := by
  have h := Lm.Props.C02.C02_publish_exactly_the_subscribed s
    { sender := none, topic := some topic, payload := 0, sys := true, holder := none, sub := none, pill := false } topic rfl k md hm
  refine ⟨h.2.1, fun hk he sub hf q hp hroom => ?_⟩
  obtain ⟨c, md', h1, h2, h3, _, h5, h6, h7, h8⟩ := h.2.2 hk he sub hf q hp hroom
  exact ⟨c, md', h1, h2, h3, h8, h5, h6, h7⟩

/-- the same for the notifications that name a module (it entered or left RUNNING): `tell_system_pubsub_msg` first counts the
message on the named module (`sent`), then walks the table; stated about the state after that count -/
theorem C19_one_transition_notification_per_subscriber (s : St) (m : ModId) (topic : String) (k : ModId) (md : Mod)
    (hm : (s.updMod m fun x => { x with sent := x.sent + 1 }).mods[k]? = some md) :
    let s1 := s.updMod m fun x => { x with sent := x.sent + 1 }
    (k ∈ s1.tableOrder → ((md.state ≠ .running ∧ md.state ≠ .paused) ∨ fetchSub s1 md topic = none) →
      (tellSystem s none (some m) topic).mods[k]? = some md) ∧
    (k ∈ s1.tableOrder → (md.state = .running ∨ md.state = .paused) → ∀ sub, fetchSub s1 md topic = some sub → ∀ q, md.pipe = some q →
      q.length + md.pipeSkip < pipeCap →
      ∃ copy md', (tellSystem s none (some m) topic).mods[k]? = some md' ∧ md'.pipe = some (q ++ [copy]) ∧ copy.payload = 0 ∧
        copy.sys = true ∧ copy.sender = some m ∧ copy.topic = some topic ∧ copy.sub = some sub ∧ md'.state = md.state) := by
  intro s1
  have h := Lm.Props.C02.C02_publish_exactly_the_subscribed s1
    { sender := some m, topic := some topic, payload := 0, sys := true, holder := none, sub := none, pill := false } topic rfl k md hm
  refine ⟨h.2.1, fun hk he sub hf q hp hroom => ?_⟩
  obtain ⟨c, md', h1, h2, h3, h4, h5, h6, h7, h8⟩ := h.2.2 hk he sub hf q hp hroom
  exact ⟨c, md', h1, h2, h3, h8, h4, h5, h6, h7⟩

/-- tie A: the guard prefixes of the entry points this property is about, re-extracted from the source on every run,
are the ones the model transcribes (`Lm.Inst.CoreTie`) -/
theorem C19_guards_in_source :
    Lm.Inst.CoreTie.slice Lm.Generated.CoreGuards.guards ["m_ctx_set_tick"] = Lm.Inst.CoreTie.slice Lm.Inst.CoreTie.expected ["m_ctx_set_tick"] := by decide

end Lm.Props.C19
