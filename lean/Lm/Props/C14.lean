import Lm.Multi
import Lm.Inv.CoreForeign
import Lm.Inst.CoreTie
import Lm.Generated.Threads
/-! # C14 — Contexts on different threads are independent; modules are thread-confined

Partial.  Three layers:
* **source inventory (tie A, regenerated on every run)**: `Lm.Generated.Statics.inventory` lists every object with static
  storage duration in Lib/ and every site that writes it or lets its address escape.  `C14_no_shared_mutable_statics`
  is the obligation that none of them is mutable state shared by the contexts;
* **model**: with no shared component, a `World` of per-thread machines is non-interfering for every interleaving, and every
  module operation attempted from a foreign thread, and every message addressed across contexts, is refused without effect;
* **compiled code (sampled)**: concurrent runs of several contexts must reproduce each context's solo trace, under
  ThreadSanitizer without any report in Lib/.  Data-race freedom of the C code is a property of the runtime; it is
  sampled, not proved.
-/
namespace Lm.Props.C14
open Lm.Core Lm.Multi Lm.Generated.Statics

/-- a site is harmless when it runs before/after all threads (constructor, destructor), exactly once under
`pthread_once`, or is the documented set-up call that must precede any other use of the library -/
def allowedSite (e : Entry) (s : Site) : Bool :=
  s.fnKind == "constructor" || s.fnKind == "destructor" || s.fnKind == "once" ||
  (e.name == "memhook" && s.fn == "m_set_memhook")

/-- static objects that some ordinary function writes (or hands out a writable pointer to) and that are neither
`const` nor synchronisation objects -/
def sharedMutable : List Entry :=
  inventory.filter fun e => !e.const && !e.sync && e.sites.any (fun s => !allowedSite e s)

/-- **No mutable state is shared between contexts**: re-checked against the source on every run.  A new `static`
counter, cache or scratch buffer used by the receive loop (or anywhere else in Lib/) makes this false. -/
theorem C14_no_shared_mutable_statics : sharedMutable = [] := by decide

/-- the synchronisation objects are only the thread-key `pthread_once` guard; no lock is shared by the contexts -/
theorem C14_sync_objects : (inventory.filter (·.sync)).map (·.name) = ["key_once"] := by decide

/-- **Task threads communicate only through an eventfd write** (tie A, regenerated on every run): the only function
Lib/core hands to another thread is `task_thread`; everything reachable from it is the user's task function (the one
indirect call), `poll_notify_userevent` and the `write(2)` it makes on the source's own eventfd; its only stores
through a pointer are the return value it leaves in its own source and the atomic mark that says it is done with that source
(D-04g: whoever drops the source waits for the mark).  In particular it takes no reference, touches no
reference count, no map, no queue and no poll set of the context looping on the other thread. -/
theorem C14_task_thread_footprint :
    Lm.Generated.Threads.entries.map (·.entry) = ["task_thread"] ∧
    (∀ e ∈ Lm.Generated.Threads.entries,
      (∀ f ∈ e.calls, f ∈ ["poll_notify_userevent", "write", "__errno_location"]) ∧
      e.indirect = ["task_thread: src->task_src.tid.fn"] ∧
      e.writes = ["task_thread: atomic &src->task_src.state", "task_thread: src->task_src.retval"]) := by decide

/-- **Independence**: for every interleaving of the lines of any number of threads, each thread's configuration and
complete output trace are those of its own lines run alone -/
theorem C14_interleaving_irrelevant (ls : List Line) (w : World) (t : Nat) :
    (wrun w ls).threads[t]? = (w.threads[t]?).map (fun c => run c (project t ls)) :=
  interleaving_irrelevant ls w t

/-- **Thread confinement**: in every reachable configuration, every module operation or pub/sub call on a live module,
made by a thread that holds another context (`hc = true`) or none, returns -EPERM (-EINVAL when a parameter check in front
of the module check already failed) and leaves the owner's configuration untouched -/
theorem C14_foreign_thread_refused (ops : List Op) (hc : Bool) (op : Op) (m : ModId) (md : Mod)
    (ht : op.modTarget = some m) (hm : (run {} ops).st.mods[m]? = some md) (hz : md.state ≠ .zombie) :
    ∃ code : Int, step (run {} ops) (.foreign hc op) = { run {} ops with st := (run {} ops).st.emit (.ret code) } ∧
      (op.paramsOk = true → code = EPERM) ∧ (op.paramsOk = false → code = EINVAL) := by
  have hf := (reach_inv ops).1.fresh.1 m md.sig (by rw [sigs_getElem?, hm]; rfl)
  exact foreign_refused (run {} ops) hc op m md ht hm hz hf

/-- a ZOMBIE handle used from a foreign thread is refused as well (-EACCES: the handle is checked first) -/
theorem C14_foreign_thread_zombie (c : Cfg) (hc : Bool) (op : Op) (m : ModId) (md : Mod)
    (ht : op.modTarget = some m) (hm : c.st.mods[m]? = some md) (hz : md.state = .zombie) :
    ∃ code : Int, code < 0 ∧ step c (.foreign hc op) = { c with st := c.st.emit (.ret code) } :=
  foreign_zombie_refused c hc op m md ht hm hz

/-- **No message crosses a context boundary**: tell and poison pill addressed to a module of another thread's context
fail without effect — -EINVAL once the sender's own guards (live, own thread, not DENY_PUB) passed -/
theorem C14_cross_context_send_refused (ops : List Op) (m : ModId) (md : Mod) (name : String) (pill : Bool)
    (hm : (run {} ops).st.mods[m]? = some md) :
    ∃ code : Int, code < 0 ∧
      step (run {} ops) (.xtell m name pill) = { run {} ops with st := (run {} ops).st.emit (.ret code) } ∧
      (modAssert (run {} ops).st m = none → md.flags.denyPub = false → code = EINVAL) := by
  have hf := (reach_inv ops).1.fresh.1 m md.sig (by rw [sigs_getElem?, hm]; rfl)
  exact xtell_refused (run {} ops) m md name pill hm hf

/-- the ownership guard is in front of every module operation of the source (tie A): the first three guards of each are
NULL → -EINVAL, ZOMBIE → -EACCES, `mod->ctx == m_ctx()` → -EPERM, and tell / poison pill compare the two contexts -/
theorem C14_guards_in_source :
    Lm.Inst.CoreTie.ownership Lm.Generated.CoreGuards.guards = Lm.Inst.CoreTie.ownership Lm.Inst.CoreTie.expected := by decide

/-! ### Non-vacuity -/
def demo : List Op :=
  [.ctxReg false, .reg "h0" "A" 5 {} { start := true }, .start 0, .ret true,
   .foreign true (.stop 0), .foreign false (.tell 0 0 7 false), .xtell 0 "A" false, .xtell 0 "A" true]

example : ((run {} demo).st.out.filterMap fun o => match o with | .ret c => some c | _ => none) = [0, 0, 0, -1, -1, -22, -22] := by decide
example : ((run {} demo).st.mods.map (·.state)) = [.running] := by decide
example : (wrun { threads := [{}, {}] } [⟨0, .ctxReg false⟩, ⟨1, .ctxReg true⟩, ⟨0, .reg "h" "A" 1 {} {}⟩, ⟨1, .ctxLen⟩]).threads.map
    (fun c => c.st.out.length) = [2, 2] := by decide

end Lm.Props.C14
