import Lm.Inst.CoreTie
import Lm.Inv.CoreSafe
import Lm.Inv.CoreGuards
/-! # C16 — Stash/unstash: events come back oldest-first, exactly as many as asked -/
namespace Lm.Props.C16
open Lm.Core

/-- unstash n (guards passed: RUNNING, n > 0, a token) hands the current handler exactly the min(n, stashed)
oldest stashed events, in stash order, in one invocation, and removes them from the stash … -/
theorem C16_unstash_hands_back_oldest (s s' : St) (m : ModId) (md md' : Mod) (n : Nat) (hm : s.mods[m]? = some md)
    (hma : modAssert s m = none) (hr : md.state = .running) (hn : n ≠ 0) (ht : consumeToken s m = some s')
    (hm' : s'.mods[m]? = some md') (hne : md'.stash.take n ≠ []) :
    ∃ k, runP (apiUnstash m n) s =
      (setCurrOf m (some m) (s'.updMod m fun md => { md with stash := md.stash.drop n }),
       .inr (.evt (md'.recvs.headD 0), m, md'.stash.take n, k)) ∧
      (md'.stash.take n).length = min n md'.stash.length := by
  unfold apiUnstash
  rw [guarded_pass_notok s m md _ _ _ hm hma rfl (by simp [maskOk, hr])]
  have hmm : (s'.updMod m fun md => { md with stash := md.stash.drop n }).mods[m]? = some { md' with stash := md'.stash.drop n } := by
    have hlt : m < s'.mods.length := (List.getElem?_eq_some_iff.mp hm').1
    have hget : s'.mods[m] = md' := (List.getElem?_eq_some_iff.mp hm').2
    simp [St.updMod, hm', hlt, hget]
  have hemp : (md'.stash.take n).isEmpty = false := by cases h : md'.stash.take n <;> simp_all
  simp only [hn, if_false, runP_getSt_bind, ht, runP_setSt_bind, hm', runP_modify_bind, callPubsubCb, hemp,
    Bool.false_eq_true, bind_assoc', hmm]
  exact ⟨_, rfl, by simp [List.length_take]⟩

/-- … and with nothing stashed it returns 0 without invoking anything -/
theorem C16_unstash_nothing (s s' : St) (m : ModId) (md md' : Mod) (n : Nat) (hm : s.mods[m]? = some md)
    (hma : modAssert s m = none) (hr : md.state = .running) (hn : n ≠ 0) (ht : consumeToken s m = some s')
    (hm' : s'.mods[m]? = some md') (he : md'.stash = []) :
    ∃ s'', runP (apiUnstash m n) s = (s'', .inl 0) := by
  unfold apiUnstash
  rw [guarded_pass_notok s m md _ _ _ hm hma rfl (by simp [maskOk, hr])]
  simp only [hn, if_false, runP_getSt_bind, ht, runP_setSt_bind, hm', runP_modify_bind, callPubsubCb, he, List.take_nil,
    List.isEmpty_nil, if_true, pure_bind', runP_pure, List.length_nil]
  exact ⟨_, rfl⟩

/-- stashing is allowed only for a RUNNING module … -/
theorem C16_stash_refused_unless_running (s : St) (m : ModId) (md : Mod) (e : Option Evt) (hm : s.mods[m]? = some md)
    (hs : md.state ≠ .running) : ∃ code : Int, code < 0 ∧ Refuses (apiStash m e) s code :=
  guarded_refuses_state s m md _ _ _ _ hm (by simp [hs])

/-- … and never for high-priority events (-EPERM; only the token is consumed) -/
theorem C16_stash_refuses_high_priority (s s' : St) (m : ModId) (md : Mod) (e : Evt) (hm : s.mods[m]? = some md)
    (hma : modAssert s m = none) (hr : md.state = .running) (ht : consumeToken s m = some s')
    (hh : srcPrio s' e = some .high) : runP (apiStash m (some e)) s = (s', .inl EPERM) := by
  unfold apiStash
  rw [guarded_pass_notok s m md _ _ _ hm hma rfl (by simp [maskOk, hr])]
  simp [ht, hh]

/-- a stashed event is appended at the end of the stash with its original content -/
theorem C16_stash_appends (s s' : St) (m : ModId) (md : Mod) (e : Evt) (hm : s.mods[m]? = some md)
    (hma : modAssert s m = none) (hr : md.state = .running) (ht : consumeToken s m = some s')
    (hh : srcPrio s' e ≠ some .high) :
    runP (apiStash m (some e)) s = (s'.updMod m (fun md => { md with stash := md.stash ++ [e] }), .inl 0) := by
  have : (srcPrio s' e == some Prio.high) = false := by simpa using hh
  unfold apiStash
  rw [guarded_pass_notok s m md _ _ _ hm hma rfl (by simp [maskOk, hr])]
  simp [ht, hh]

/-- events still stashed when the module stops are discarded: `reset_module` empties the stash -/
theorem C16_stop_discards_stash (md : Mod) : md.reset.stash = [] ∧ md.reset.batch = [] := ⟨rfl, rfl⟩


/-- tie A: the guard prefixes of the entry points this property is about, re-extracted from the source on every run,
are the ones the model transcribes (`Lm.Inst.CoreTie`) -/
theorem C16_guards_in_source :
    Lm.Inst.CoreTie.slice Lm.Generated.CoreGuards.guards ["m_mod_stash", "m_mod_unstash"] = Lm.Inst.CoreTie.slice Lm.Inst.CoreTie.expected ["m_mod_stash", "m_mod_unstash"] := by decide

end Lm.Props.C16
