import Lm.Inst.CoreTie
import Lm.Inv.CoreSafe
import Lm.Inv.CoreGuards
/-! # C13 — Priorities and batching decide when a handler runs and with which events -/
namespace Lm.Props.C13
open Lm.Core

/-- does this event, arriving for a module whose queue (after enqueueing) is `q`, cause an invocation?
(the decision table of `push_evt`) -/
def fires (role : Role) (prio : Option Prio) (q : List Evt) (inf : Bool) (len : Nat) : Bool :=
  !q.isEmpty &&
    !(role == .user && prio == some .low) &&
      ((role == .batchTimer) || (role == .user && prio == some .high) || (!inf && decide (q.length ≥ len)))

/-- **The decision table.**  `push_evt` invokes the handler exactly when `fires` says so, hands it the whole
accumulated queue in arrival order (new event last) and empties the queue; otherwise it returns without
invoking anything and the event (if it is a user event) stays queued. -/
theorem C13_decision_table (s : St) (m : ModId) (e : Evt) (md1 : Mod)
    (hm1 : (pushEvtStore s m e).mods[m]? = some md1) :
    (fires (srcRole s e) (srcPrio s e) md1.batch md1.batchInf md1.batchLen = true →
      ∃ k, runP (pushEvtP m e) s =
        (setCurrOf m (some m) ((pushEvtStore s m e).updMod m fun md => { md with batch := [] }),
         .inr (.evt (md1.recvs.headD 0), m, md1.batch, k))) ∧
    (fires (srcRole s e) (srcPrio s e) md1.batch md1.batchInf md1.batchLen = false →
      runP (pushEvtP m e) s = (pushEvtStore s m e, .inl ())) := by
  have hlt : m < (pushEvtStore s m e).mods.length := (List.getElem?_eq_some_iff.mp hm1).1
  have hget : (pushEvtStore s m e).mods[m] = md1 := (List.getElem?_eq_some_iff.mp hm1).2
  have hmm : ((pushEvtStore s m e).updMod m fun md => { md with batch := [] }).mods[m]? = some { md1 with batch := [] } := by
    simp [St.updMod, hm1, hlt, hget]
  unfold pushEvtP fires
  simp only [runP_getSt_bind, runP_modify_bind]
  by_cases hlow : (srcRole s e == .user && srcPrio s e == some .low) = true
  · simp [hlow]
  · simp only [hlow, Bool.false_eq_true, if_false, runP_getSt_bind, hm1]
    by_cases hemp : md1.batch.isEmpty = true
    · simp [hemp]
    · simp only [hemp, Bool.false_eq_true, if_false, Bool.not_false, Bool.true_and]
      by_cases hf : ((srcRole s e == .batchTimer) || (srcRole s e == .user && srcPrio s e == some .high) ||
          (!md1.batchInf && decide (md1.batch.length ≥ md1.batchLen))) = true
      · simp only [hf, if_true, runP_modify_bind, callPubsubCb, hemp, Bool.false_eq_true, if_false, bind_assoc',
          runP_getSt_bind, hmm]
        exact ⟨fun _ => ⟨_, rfl⟩, fun h => by simp at h⟩
      · simp only [hf, Bool.false_eq_true, if_false]
        exact ⟨fun h => by simp at h, fun _ => rfl⟩

/-- a user event is appended at the end of the module's queue (arrival order), carrying the user data given at registration -/
theorem C13_enqueued_in_arrival_order (s : St) (m : ModId) (md : Mod) (e : Evt) (hm : s.mods[m]? = some md)
    (hu : srcRole s e = .user) :
    (pushEvtStore s m e).mods[m]? = some { md with batch := md.batch ++ [stampEvt s e] } ∧
    (stampEvt s e).kind = e.kind ∧ (stampEvt s e).msg = e.msg ∧ (stampEvt s e).src = e.src ∧
    (∀ i x, e.src = some i → s.srcs[i]? = some x → (stampEvt s e).userdata = x.userptr) := by
  have hlt : m < s.mods.length := (List.getElem?_eq_some_iff.mp hm).1
  have hget : s.mods[m] = md := (List.getElem?_eq_some_iff.mp hm).2
  refine ⟨?_, ?_, ?_, ?_, ?_⟩
  · unfold pushEvtStore
    simp only [hu, bne_self_eq_false, Bool.false_eq_true, if_false]
    simp [St.updMod, hm, hlt, hget]
  · unfold stampEvt; split <;> rfl
  · unfold stampEvt; split <;> rfl
  · unfold stampEvt; split <;> rfl
  · intro i x hi hx
    unfold stampEvt
    simp [hi, hx]

/-- high-priority events (descriptor events always are) cause an invocation at once -/
theorem C13_high_fires (q : List Evt) (inf : Bool) (len : Nat) (h : q ≠ []) : fires .user (some .high) q inf len = true := by
  cases q <;> simp_all [fires]

/-- low-priority events never cause an invocation by themselves -/
theorem C13_low_never_fires (q : List Evt) (inf : Bool) (len : Nat) : fires .user (some .low) q inf len = false := by
  simp [fires]

/-- a normal-priority event fires exactly when the accumulated count has reached the batch size
(a pending batch timeout without size makes the size infinite) -/
theorem C13_norm_fires_iff (p : Option Prio) (hp : p = some .norm ∨ p = none) (q : List Evt) (inf : Bool) (len : Nat) (h : q ≠ []) :
    fires .user p q inf len = (!inf && decide (q.length ≥ len)) := by
  rcases hp with rfl | rfl <;> cases q with
    | nil => simp at h
    | cons x xs => cases inf <;> rfl

/-- with neither a batch size nor a batch timeout configured every normal event is delivered at once -/
theorem C13_default_immediate (p : Option Prio) (hp : p = some .norm ∨ p = none) (q : List Evt) (h : q ≠ []) :
    fires .user p q false 0 = true := by
  rw [C13_norm_fires_iff p hp q false 0 h]; simp

/-- the batch timeout fires with whatever is pending, and only then -/
theorem C13_timeout_fires_iff_pending (q : List Evt) (inf : Bool) (len : Nat) (p : Option Prio) :
    fires .batchTimer p q inf len = !q.isEmpty := by
  cases q <;> simp [fires]

/-- stopping the module discards accumulated events and resets the batching settings -/
theorem C13_stop_resets_batching (md : Mod) : md.reset.batch = [] ∧ md.reset.batchLen = 0 ∧ md.reset.batchInf = false ∧ md.reset.batchTimer = 0 :=
  ⟨rfl, rfl, rfl, rfl⟩

/-- clearing the batch timeout when no size was configured re-enables immediate delivery (the D-13 repair) -/
theorem C13_clearing_timeout_restores_default (md : Mod) (h : md.batchInf = true) :
    (if md.batchInf then { md with batchInf := false, batchLen := 0 } else md).batchInf = false ∧
    (if md.batchInf then { md with batchInf := false, batchLen := 0 } else md).batchLen = 0 := by
  simp [h]


/-- descriptor events are always high priority: the registry forces the priority of a descriptor source whatever was asked
for, so by `C13_high_fires` its event is handed over at once, in front of nothing and behind everything already accumulated -/
theorem C13_descriptor_sources_are_high (x : Src) (h : x.kind = .fd) : (forceHigh x).prio = .high := by
  unfold forceHigh; simp [h]

/-- tie A: the guard prefixes of the entry points this property is about, re-extracted from the source on every run,
are the ones the model transcribes (`Lm.Inst.CoreTie`) -/
theorem C13_guards_in_source :
    Lm.Inst.CoreTie.slice Lm.Generated.CoreGuards.guards ["m_mod_set_batch_size", "m_mod_set_batch_timeout"] = Lm.Inst.CoreTie.slice Lm.Inst.CoreTie.expected ["m_mod_set_batch_size", "m_mod_set_batch_timeout"] := by decide

end Lm.Props.C13
