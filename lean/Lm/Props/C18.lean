import Lm.Inst.CoreTie
import Lm.Inv.CoreSafe
import Lm.Inv.CoreGuards
/-! # C18 — Token bucket bounds the rate of a module's actions

Time is counted in refill ticks: the bucket's refill timer (period ⌊10⁹/rate⌋ ns) delivers one internal event
per expiry; that a periodic timer of period P fires at most ⌊t/P⌋+1 times in t ns is the kernel's guarantee. -/
namespace Lm.Props.C18
open Lm.Core

/-- tokens of a module (none: no bucket, unlimited) -/
def tokens (s : St) (m : ModId) : Option Nat := (s.mods[m]?).bind fun md => md.tb.map (·.tokens)
def burst (s : St) (m : ModId) : Option Nat := (s.mods[m]?).bind fun md => md.tb.map (·.burst)

/-- a token-consuming call takes exactly one token when one is left … -/
theorem C18_consume_takes_one (s : St) (m : ModId) (md : Mod) (tb : TB) (hm : s.mods[m]? = some md) (ht : md.tb = some tb)
    (hp : 0 < tb.tokens) : ∃ s', consumeToken s m = some s' ∧ tokens s' m = some (tb.tokens - 1) ∧ burst s' m = some tb.burst := by
  have hlt : m < s.mods.length := (List.getElem?_eq_some_iff.mp hm).1
  have hget : s.mods[m] = md := (List.getElem?_eq_some_iff.mp hm).2
  have h0 : ¬ tb.tokens = 0 := by omega
  refine ⟨s.updMod m fun md => { md with tb := some { tb with tokens := tb.tokens - 1 } }, by simp [consumeToken, hm, ht, h0], ?_, ?_⟩ <;>
    simp [tokens, burst, St.updMod, hm, hlt, hget]

/-- … and is refused with -EAGAIN, changing nothing, when none is left (for every guarded token-consuming call) -/
theorem C18_exhausted_refused (s : St) (m : ModId) (md : Mod) (deny mask) (body : Prog Int) (tb : TB)
    (hm : s.mods[m]? = some md) (hma : modAssert s m = none) (hd : deny md.flags = false)
    (hmask : (match mask with | some l => !l.contains md.state | none => false) = false)
    (htb : md.tb = some tb) (h0 : tb.tokens = 0) : Refuses (guarded m deny mask true body) s EAGAIN :=
  guarded_refuses_token s m md deny mask body hm hma hd hmask tb htb h0

/-- without a bucket nothing is ever refused for lack of tokens -/
theorem C18_no_bucket_no_limit (s : St) (m : ModId) (md : Mod) (hm : s.mods[m]? = some md) (ht : md.tb = none) :
    consumeToken s m = some s := by
  simp [consumeToken, hm, ht]

/-- a refill tick adds one token, never beyond the burst -/
theorem C18_refill_capped (s : St) (m : ModId) (md : Mod) (tb : TB) (e : Evt) (hm : s.mods[m]? = some md) (ht : md.tb = some tb)
    (hr : srcRole s e = .tbTimer) (hinv : tb.tokens ≤ tb.burst) :
    tokens (pushEvtStore s m e) m = some (min (tb.tokens + 1) tb.burst) ∧ burst (pushEvtStore s m e) m = some tb.burst := by
  have hlt : m < s.mods.length := (List.getElem?_eq_some_iff.mp hm).1
  have hget : s.mods[m] = md := (List.getElem?_eq_some_iff.mp hm).2
  have d1 : (Role.tbTimer != Role.user) = true := by decide
  unfold pushEvtStore
  simp only [hr, d1, if_true, beq_self_eq_true]
  by_cases hlt2 : tb.tokens < tb.burst
  · have : min (tb.tokens + 1) tb.burst = tb.tokens + 1 := by omega
    simp [tokens, burst, St.updMod, hm, hlt, hget, ht, hlt2, this]
  · have : min (tb.tokens + 1) tb.burst = tb.tokens := by omega
    simp [tokens, burst, St.updMod, hm, hlt, hget, ht, hlt2, this]

/-- **The bound.**  Abstract history of one bucket: `true` = a refill tick, `false` = a successful token-consuming
call.  Starting from `t0 ≤ b` tokens, the number of successes in any history is at most `t0` + the number of ticks —
hence at most `b + r·t` in any interval of `t` seconds containing at most `r·t` ticks. -/
def play (b : Nat) : Nat → List Bool → Option Nat
  | t, [] => some t
  | t, true :: rest => play b (min (t + 1) b) rest
  | t, false :: rest => if t = 0 then none else play b (t - 1) rest

theorem C18_successes_bounded (b : Nat) : ∀ (h : List Bool) (t0 t : Nat), t0 ≤ b → play b t0 h = some t →
    h.count false + t ≤ t0 + h.count true ∧ t ≤ b := by
  intro h
  induction h with
  | nil => intro t0 t hb hp; simp [play] at hp; subst hp; simp; exact hb
  | cons x xs ih =>
    intro t0 t hb hp
    cases x with
    | true =>
      simp only [play] at hp
      have := ih (min (t0 + 1) b) t (by omega) hp
      simp only [List.count_cons, beq_self_eq_true, if_true]
      have d : (true == false) = false := by decide
      simp only [d, Bool.false_eq_true, if_false, Nat.add_zero]
      omega
    | false =>
      simp only [play] at hp
      by_cases h0 : t0 = 0
      · simp [h0] at hp
      · simp only [h0, if_false] at hp
        have := ih (t0 - 1) t (by omega) hp
        simp only [List.count_cons, beq_self_eq_true, if_true]
        have d : (false == true) = false := by decide
        simp only [d, Bool.false_eq_true, if_false, Nat.add_zero]
        omega

/-- setting rate 0 removes the limit, and so does stopping the module -/
theorem C18_rate_zero_or_stop_removes_limit (md : Mod) : md.reset.tb = none ∧ md.reset.tbTimer = 0 := ⟨rfl, rfl⟩

/-- configuring a bucket starts it full; the refill timer period is ⌊10⁹/rate⌋ ns -/
theorem C18_configured_full (md : Mod) (rate b : Nat) :
    ({ md with tb := some { rate := rate, burst := b, tokens := b }, tbTimer := BILLION / rate } : Mod).tb = some { rate := rate, burst := b, tokens := b } := rfl

example : play 2 2 [false, false, true, false] = some 0 := by decide
example : play 2 2 [false, false, false] = none := by decide


/-- tie A: the guard prefixes of the entry points this property is about, re-extracted from the source on every run,
are the ones the model transcribes (`Lm.Inst.CoreTie`) -/
theorem C18_guards_in_source :
    Lm.Inst.CoreTie.slice Lm.Generated.CoreGuards.guards ["m_mod_set_tokenbucket"] = Lm.Inst.CoreTie.slice Lm.Inst.CoreTie.expected ["m_mod_set_tokenbucket"] := by decide

end Lm.Props.C18
