import Lm.Core.Machine
import Lm.Core.Lemmas
import Lm.Inv.CoreOut
/-! # C20 — Descriptors: AUTOCLOSE closes once at removal, nothing else closes a user descriptor

Partial: the model records `close` events (which descriptor, in which step); that the C code issues the matching
`close(2)` calls on exactly those descriptors is observed by the correspondence runs (wrapped `close`), and descriptor
leaks are outside the model.  The statements below are about the state transformers every stop / pause / reset /
deregistration path is built from; lifting them to whole histories (through user callbacks) is not done. -/
namespace Lm.Props.C20
open Lm.Core

/-- removing a source closes its descriptor exactly when it was registered with AUTOCLOSE (subscriptions own none) -/
theorem C20_close_iff_autoclose (s : St) (i : SrcId) (x : Src) (hx : s.srcs[i]? = some x) :
    (destroySrc s i).out = if x.autoclose && !x.isSub then s.out ++ [.close (.fd x.key)] else s.out := by
  simp only [destroySrc, hx]
  split <;> simp [St.emit, St.updSrc, hx]

/-- a descriptor registered without AUTOCLOSE is never closed by the library when its source goes away -/
theorem C20_user_fd_left_alone (s : St) (i : SrcId) (x : Src) (hx : s.srcs[i]? = some x) (ha : x.autoclose = false) :
    (destroySrc s i).out = s.out := by
  rw [C20_close_iff_autoclose s i x hx]; simp [ha]

/-- once removed a source is neither registered nor polled, so no later pass can reach (and close) it again -/
theorem C20_removed_source_is_gone (s : St) (i : SrcId) (x : Src) (hx : s.srcs[i]? = some x) :
    ∃ y, (destroySrc s i).srcs[i]? = some y ∧ y.registered = false ∧ y.polled = false := by
  have hlt : i < s.srcs.length := by
    rcases Nat.lt_or_ge i s.srcs.length with h | h
    · exact h
    · simp [List.getElem?_eq_none h] at hx
  have hget : s.srcs[i] = x := by rw [List.getElem?_eq_getElem hlt] at hx; exact Option.some.inj hx
  refine ⟨{ x with registered := false, polled := false }, ?_, rfl, rfl⟩
  simp only [destroySrc, hx]
  split <;> simp [St.emit, St.updSrc, hlt, hget]

/-- removal also takes the source out of its module's lists, which are the only way the library finds sources -/
theorem C20_removed_from_owner_lists (s : St) (m : ModId) (i : SrcId) (md : Mod) (hm : s.mods[m]? = some md) :
    ∃ md', (s.updMod m fun md => { md with srcs := md.srcs.filter (· != i), subs := md.subs.filter (· != i) }).mods[m]? = some md' ∧
      i ∉ md'.srcs ∧ i ∉ md'.subs := by
  have hlt : m < s.mods.length := by
    rcases Nat.lt_or_ge m s.mods.length with h | h
    · exact h
    · simp [List.getElem?_eq_none h] at hm
  have hget : s.mods[m] = md := by rw [List.getElem?_eq_getElem hlt] at hm; exact Option.some.inj hm
  refine ⟨{ md with srcs := md.srcs.filter (· != i), subs := md.subs.filter (· != i) }, ?_, ?_, ?_⟩
  · simp [St.updMod, hlt, hget]
  · simp
  · simp

/-- everything the stop path (`manage_srcs(RM, stop)`) writes to the trace is a payload free, a pipe end, or the close
of a descriptor whose source was registered with AUTOCLOSE; in particular no plain user descriptor and no duplicate -/
theorem C20_stop_closes_only_autoclose (s : St) (m : ModId) (stop : Bool) :
    ∃ l, (manageSrcsRm s m stop).out = s.out ++ l ∧ ∀ o ∈ l, Allowed s o :=
  (emits_manageSrcsRm m stop s).2

/-- pausing (`manage_srcs(RM, stop = false)`) closes nothing at all -/
theorem C20_pause_closes_nothing (s : St) (m : ModId) : (manageSrcsRm s m false).out = s.out := by
  unfold manageSrcsRm
  split
  · rfl
  · rename_i md _
    simp only [Bool.false_eq_true, if_false]
    have : ∀ (l : List SrcId) (t : St), (l.foldl (fun s i => s.updSrc i fun x => { x with polled := false }) t).out = t.out := by
      intro l
      induction l with
      | nil => intro t; rfl
      | cons a l ih => intro t; simp only [List.foldl_cons]; rw [ih]; unfold St.updSrc; split <;> rfl
    rw [this]; unfold St.updMod; split <;> rfl

/-- the same for `reset_module` (run by stop and by deregistration) -/
theorem C20_reset_closes_only_autoclose (s : St) (m : ModId) :
    ∃ l, (resetModule s m).out = s.out ++ l ∧ ∀ o ∈ l, Allowed s o :=
  (emits_resetModule m s).2

/-- `Allowed` is what it says: a descriptor close is allowed only for an AUTOCLOSE, non-subscription source -/
theorem C20_allowed_fd (s : St) (k : Nat) (h : Allowed s (.close (.fd k))) :
    ∃ (i : Nat) (x : Src), s.srcs[i]? = some x ∧ x.key = k ∧ x.autoclose = true ∧ x.isSub = false := h

theorem updMod_get (t : St) (m : ModId) (f : Mod → Mod) (md : Mod) (h : (t.updMod m f).mods[m]? = some md) :
    (∃ md0, t.mods[m]? = some md0 ∧ md = f md0) := by
  unfold St.updMod at h
  split at h
  · rename_i md1 h1
    have hlt : m < t.mods.length := by
      rcases Nat.lt_or_ge m t.mods.length with h | h
      · exact h
      · simp [List.getElem?_eq_none h] at h1
    simp [hlt] at h
    exact ⟨md1, h1, h.symm⟩
  · rename_i h1; rw [h1] at h; cases h

/-- after `reset_module` the module has no pipe, so a second reset closes no pipe end again -/
theorem C20_reset_leaves_no_pipe (s : St) (m : ModId) (md : Mod) (hm : (resetModule s m).mods[m]? = some md) : md.pipe = none := by
  unfold resetModule at hm
  cases h0 : s.mods[m]? with
  | none => rw [h0] at hm; simp only at hm; rw [h0] at hm; cases hm
  | some md0 =>
    rw [h0] at hm
    simp only at hm
    obtain ⟨md1, _, he⟩ := updMod_get _ m Mod.reset md hm
    subst he; rfl

-- non-vacuity: an AUTOCLOSE descriptor is closed, a plain one is not
example : (destroySrc { srcs := [{ kind := .fd, owner := 0, key := 7, autoclose := true }] } 0).out = [.close (.fd 7)] := by decide
example : (destroySrc { srcs := [{ kind := .fd, owner := 0, key := 7, autoclose := false }] } 0).out = [] := by decide

end Lm.Props.C20
