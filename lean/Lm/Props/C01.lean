import Lm.Core.Machine
namespace Lm.Props.C01
theorem C01_placeholder : True := trivial
end Lm.Props.C01
