import Lm.Inst.CoreTie
import Lm.Inv.CoreSafe
import Lm.Inv.CoreGuards
/-!
# C01 — Module lifecycle follows the documented state machine; callbacks pair up

Theorems about `Lm.Core` (the model of ctx.c/mod.c/ps.c/evts.c/src.c after the fix commits), which the
correspondence check ties to the compiled library.  `run {} ops` ranges over **every** finite sequence
of script lines: API calls issued from outside the loop or re-entrantly from inside
start/stop/eval/event callbacks at any nesting depth, with every combination of callback return values.
-/
namespace Lm.Props.C01
open Lm.Core

/-- clause (f): in every reachable configuration — also in the middle of callbacks — the number of
running modules reported by the context equals the number of its modules in RUNNING state -/
theorem C01_running_counter (ops : List Op) (c : Ctx) (h : (run {} ops).st.ctx = some c) :
    c.running = ((run {} ops).st.mods.filter (fun md => md.state == .running && md.ctxId == c.id)).length := by
  have := (reach_inv ops).1.run c h
  rw [this, runCount, St.sigs, List.countP_map, List.countP_eq_length_filter]
  rfl

/-- a module that left its context's table (deregistration in progress or done) is STOPPED or a ZOMBIE:
in particular it is never RUNNING, never PAUSED and never evaluated/started again -/
theorem C01_deregistered_never_runs (ops : List Op) (m : ModId) (md : Mod)
    (h : (run {} ops).st.mods[m]? = some md) (hout : md.inCtx = false) : md.state = .stopped ∨ md.state = .zombie := by
  have := (reach_inv ops).1.out m md.sig (by rw [sigs_getElem?, h]; rfl) hout
  exact this

/-- the same invariants hold for the state in which every suspended library activation will be resumed:
whatever a callback does, the library code continues from a consistent state -/
theorem C01_consistent_at_every_callback_boundary (ops : List Op) : CfgOK Inv Mono (run {} ops) := reach_inv ops

/-- **clause (a), for every history**: every state change the library ever performs — in any sequence of calls, from
outside the loop or from inside start / stop / eval / event callbacks at any depth, whatever the callbacks return — is a
documented edge: IDLE→RUNNING, RUNNING⇄PAUSED, RUNNING|PAUSED→STOPPED, STOPPED→RUNNING, anything→ZOMBIE (final; nothing
leaves ZOMBIE), or no change; IDLE→STOPPED occurs only as the first half of a deregistration (`t.out`: the module was
already taken out of its context's table; the stop hook runs, then the module becomes a ZOMBIE).
`trans` is the ghost log `setState` appends to: the only place of the model where a module's state is assigned. -/
theorem C01_every_transition_documented (ops : List Op) : ∀ t ∈ (run {} ops).st.trans, t.ok = true :=
  (reach_inv ops).1.trans

/-- what `ok` says, spelled out -/
theorem C01_documented_edges (t : Trans) (h : t.ok = true) :
    t.src = t.dst ∨ (t.src = .idle ∧ t.dst = .running) ∨ (t.src = .running ∧ t.dst = .paused) ∨ (t.src = .paused ∧ t.dst = .running) ∨
    (t.src = .running ∧ t.dst = .stopped) ∨ (t.src = .paused ∧ t.dst = .stopped) ∨ (t.src = .stopped ∧ t.dst = .running) ∨
    (t.src ≠ .zombie ∧ t.dst = .zombie) ∨ (t.src = .idle ∧ t.dst = .stopped ∧ t.out = true) := by
  cases t with
  | mk m src dst out =>
    cases src <;> cases dst <;> simp [Trans.ok] at h ⊢ <;> exact h

/-- the log is faithful (so the theorem above is about *every* state change, not about a log that could be bypassed):
in every reachable configuration the state of each module is the target of its last logged change (IDLE if it never
changed), and only existing modules are logged -/
theorem C01_log_is_faithful (ops : List Op) (m : ModId) (md : Mod) (h : (run {} ops).st.mods[m]? = some md) :
    lastState (run {} ops).st.trans m = md.state := by
  have := (reach_inv ops).1.log m md.sig (by rw [sigs_getElem?, h]; rfl)
  exact this

/-- ZOMBIE is final and IDLE is only an initial state, in every history: no state change ever leaves ZOMBIE, none ever
enters IDLE -/
theorem C01_zombie_final_idle_initial (ops : List Op) (t : Trans) (h : t ∈ (run {} ops).st.trans) :
    (t.src = .zombie → t.dst = .zombie) ∧ (t.dst = .idle → t.src = .idle) := by
  have hok := C01_every_transition_documented ops t h
  cases t with
  | mk m src dst out => cases src <;> cases dst <;> simp [Trans.ok] at hok ⊢

/-- clause (b), m_mod_start: in any state other than IDLE / STOPPED the call fails and changes nothing -/
theorem C01_start_refused (s : St) (m : ModId) (md : Mod) (hm : s.mods[m]? = some md)
    (hs : md.state ≠ .idle ∧ md.state ≠ .stopped) : ∃ code : Int, code < 0 ∧ Refuses (apiStart m) s code := by
  unfold Refuses apiStart
  simp only [runP_getSt_bind]
  cases hma : modAssert s m with
  | some e => exact ⟨e, modAssert_neg s m e hma, by simp⟩
  | none =>
    refine ⟨EACCES, by decide, ?_⟩
    have : (md.state == MState.idle || md.state == MState.stopped) = false := by
      simp [hs.1, hs.2]
    simp [hm, this]

/-- clause (b), m_mod_pause / m_mod_resume / m_mod_stop outside their states -/
theorem C01_pause_refused (s : St) (m : ModId) (md : Mod) (hm : s.mods[m]? = some md) (hs : md.state ≠ .running) :
    ∃ code : Int, code < 0 ∧ Refuses (apiPause m) s code :=
  guarded_refuses_state s m md _ _ _ _ hm (by simp [hs])

theorem C01_resume_refused (s : St) (m : ModId) (md : Mod) (hm : s.mods[m]? = some md) (hs : md.state ≠ .paused) :
    ∃ code : Int, code < 0 ∧ Refuses (apiResume m) s code :=
  guarded_refuses_state s m md _ _ _ _ hm (by simp [hs])

theorem C01_stop_refused (s : St) (m : ModId) (md : Mod) (hm : s.mods[m]? = some md)
    (hs : md.state ≠ .running ∧ md.state ≠ .paused) : ∃ code : Int, code < 0 ∧ Refuses (apiStop m) s code :=
  guarded_refuses_state s m md _ _ _ _ hm (by simp [hs.1, hs.2])

/-- clause (a), ZOMBIE is final: every state-changing call on a ZOMBIE fails with -EACCES and changes nothing -/
theorem C01_zombie_refuses_everything (s : St) (m : ModId) (md : Mod) (hm : s.mods[m]? = some md) (hz : md.state = .zombie) :
    Refuses (apiStart m) s EACCES ∧ Refuses (apiPause m) s EACCES ∧ Refuses (apiResume m) s EACCES ∧
    Refuses (apiStop m) s EACCES ∧ Refuses (modDeregisterP m) s EACCES := by
  refine ⟨?_, guarded_refuses_zombie s m md _ _ _ _ hm hz, guarded_refuses_zombie s m md _ _ _ _ hm hz,
    guarded_refuses_zombie s m md _ _ _ _ hm hz, ?_⟩
  · simp [Refuses, apiStart, modAssert, hm, hz]
  · simp [Refuses, modDeregisterP, modDeregCore, modAssert, hm, hz]

/-- pause and resume run neither the start nor the stop callback: the pause program contains no callback at
all — it returns without suspending, whatever the state -/
theorem C01_pause_runs_no_callback (s : St) (m : ModId) : ∃ s' code, runP (apiPause m) s = (s', .inl code) := by
  unfold apiPause guarded
  simp only [runP_getSt_bind]
  cases modAssert s m with
  | some e => exact ⟨_, _, rfl⟩
  | none =>
    simp only
    cases s.mods[m]? with
    | none => exact ⟨_, _, rfl⟩
    | some md =>
      simp only
      split
      · exact ⟨_, _, rfl⟩
      · split
        · exact ⟨_, _, rfl⟩
        · simp only [if_true]
          cases consumeToken s m with
          | none => exact ⟨_, _, rfl⟩
          | some s' =>
            simp only [runP_setSt_bind, stopP, runP_modify_bind, runP_getSt_bind]
            simp only [Bool.false_eq_true, if_false, pure_bind', runP_modify_bind]
            split <;> exact ⟨_, _, rfl⟩

/-! ### Non-vacuity: a history with nesting — a start hook that starts another module, a refusing start,
a deregistration from inside a handler — reaches non-trivial states that satisfy the invariants -/

def demo : List Op :=
  [.ctxReg false, .reg "h0" "A" 5 {} { start := true, stop := true }, .reg "h1" "B" 9 {} { start := true },
   .start 0, .start 1, .ret false, .ret true, .pause 0, .resume 0, .dereg 0, .start 0, .ret true]

example : ((run {} demo).st.mods.map (·.state)) = [.zombie, .stopped] := by decide
example : 5 ≤ (run {} demo).st.trans.length ∧ (run {} demo).st.trans.all (·.ok) = true := by decide
example : ((run {} demo).st.ctx.map (·.running)) = some 0 := by decide
example : (run {} (demo.take 5)).stack.length = 2 := by decide
example : ((run {} (demo.take 9)).st.ctx.map (·.running)) = some 1 := by decide


/-- tie A: the guard prefixes of the entry points this property is about, re-extracted from the source on every run,
are the ones the model transcribes (`Lm.Inst.CoreTie`) -/
theorem C01_guards_in_source :
    Lm.Inst.CoreTie.slice Lm.Generated.CoreGuards.guards ["m_mod_start", "m_mod_pause", "m_mod_resume", "m_mod_stop", "mod_deregister", "m_mod_deregister"] = Lm.Inst.CoreTie.slice Lm.Inst.CoreTie.expected ["m_mod_start", "m_mod_pause", "m_mod_resume", "m_mod_stop", "mod_deregister", "m_mod_deregister"] := by decide

end Lm.Props.C01
