import Lm.Inst.CoreTie
import Lm.Inv.CoreSafe
import Lm.Inv.CoreGuards
/-! # C17 — become/unbecome form a handler stack that is reset when the module stops -/
namespace Lm.Props.C17
open Lm.Core

/-- every handler invocation goes to the most recently installed handler that has not been removed, and to
the registration-time handler (#0) when the stack is empty: `call_pubsub_cb` on a non-empty event queue
suspends at exactly that handler, with exactly those events -/
theorem C17_invocation_uses_top_of_stack (s : St) (m : ModId) (md : Mod) (evts : List Evt) (hm : s.mods[m]? = some md)
    (he : evts ≠ []) :
    ∃ k, runP (callPubsubCb m evts) s = (setCurrOf m (some m) s, .inr (.evt (md.recvs.headD 0), m, evts, k)) := by
  unfold callPubsubCb
  have : evts.isEmpty = false := by cases evts <;> simp_all
  simp only [this, Bool.false_eq_true, if_false, runP_getSt_bind, runP_modify_bind, hm]
  exact ⟨_, rfl⟩

/-- become pushes the new handler (when the guards pass: RUNNING, own context, a token) -/
theorem C17_become_pushes (s s' : St) (m : ModId) (md : Mod) (h : Nat) (hm : s.mods[m]? = some md) (hma : modAssert s m = none)
    (hr : md.state = .running) (ht : consumeToken s m = some s') :
    runP (apiBecome m h) s = (s'.updMod m (fun md => { md with recvs := h :: md.recvs }), .inl 0) := by
  simp [apiBecome, guarded, hma, hm, hr, noDeny, ht]

/-- unbecome removes exactly the top handler … -/
theorem C17_unbecome_pops (s s' : St) (m : ModId) (md md' : Mod) (x : Nat) (rest : List Nat) (hm : s.mods[m]? = some md)
    (hma : modAssert s m = none) (hr : md.state = .running) (ht : consumeToken s m = some s')
    (hm' : s'.mods[m]? = some md') (hst : md'.recvs = x :: rest) :
    runP (apiUnbecome m) s = (s'.updMod m (fun md => { md with recvs := rest }), .inl 0) := by
  simp [apiUnbecome, guarded, hma, hm, hr, noDeny, ht, hm', hst]

/-- … and fails with -EINVAL when the stack is empty (the token is consumed, nothing else changes) -/
theorem C17_unbecome_empty (s s' : St) (m : ModId) (md md' : Mod) (hm : s.mods[m]? = some md)
    (hma : modAssert s m = none) (hr : md.state = .running) (ht : consumeToken s m = some s')
    (hm' : s'.mods[m]? = some md') (hst : md'.recvs = []) :
    runP (apiUnbecome m) s = (s', .inl EINVAL) := by
  simp [apiUnbecome, guarded, hma, hm, hr, noDeny, ht, hm', hst]

/-- both are refused (negative code, nothing changes) unless the module is RUNNING -/
theorem C17_refused_unless_running (s : St) (m : ModId) (md : Mod) (hm : s.mods[m]? = some md) (hs : md.state ≠ .running) :
    (∀ h, ∃ code : Int, code < 0 ∧ Refuses (apiBecome m h) s code) ∧ (∃ code : Int, code < 0 ∧ Refuses (apiUnbecome m) s code) :=
  ⟨fun _ => guarded_refuses_state s m md _ _ _ _ hm (by simp [hs]), guarded_refuses_state s m md _ _ _ _ hm (by simp [hs])⟩

/-- the stack is emptied when the module stops (`reset_module`), so a restarted module starts with its original handler -/
theorem C17_stop_empties_stack (s : St) (m : ModId) (md : Mod) (hm : s.mods[m]? = some md) :
    ∃ md', (resetModule s m).mods[m]? = some md' ∧ md'.recvs = [] := by
  have key : ∀ (st : St) (x : Mod), st.mods[m]? = some x → ∃ md', (st.updMod m Mod.reset).mods[m]? = some md' ∧ md'.recvs = [] := by
    intro st x hx
    have hlt : m < st.mods.length := (List.getElem?_eq_some_iff.mp hx).1
    have hget : st.mods[m] = x := (List.getElem?_eq_some_iff.mp hx).2
    exact ⟨x.reset, by simp [St.updMod, hx, hlt, hget], rfl⟩
  unfold resetModule
  simp only [hm]
  -- the clean-up steps before the final reset keep module `m` in place
  have pres : ∀ (g : St → St), (∀ st, (g st).mods.length = st.mods.length) → ∀ st, (∃ x, st.mods[m]? = some x) → ∃ x, (g st).mods[m]? = some x := by
    intro g hg st ⟨x, hx⟩
    have hlt : m < st.mods.length := (List.getElem?_eq_some_iff.mp hx).1
    have : m < (g st).mods.length := by rw [hg]; exact hlt
    exact ⟨(g st).mods[m], by simp [List.getElem?_eq_getElem this]⟩
  have hlen_q : ∀ (g : St → St), Quiet g → ∀ st, (g st).mods.length = st.mods.length := by
    intro g hg st
    have := congrArg List.length (hg.sigs st)
    simpa [St.sigs] using this
  have q1 : Quiet (fun st : St => if md.pipe.isSome then st.emit (.close .pipeW) else st) := Quiet.ite _ (quiet_emit _) Quiet.id
  have q2 := Quiet.foldl (fun st i => removeSrc st m i) (fun i => quiet_removeSrc m i) md.subs
  have q3 := quiet_destroyEvts md.stash []
  have q4 := quiet_destroyEvts md.batch []
  have qq := Quiet.comp q4 (Quiet.comp q3 (Quiet.comp q2 q1))
  obtain ⟨x, hx⟩ := pres _ (hlen_q _ qq) s ⟨md, hm⟩
  exact key _ x hx

/-- a change made inside a handler takes effect from the next invocation: the handler of an invocation is fixed
when the invocation starts (it is part of the suspension record, see `C17_invocation_uses_top_of_stack`) -/
theorem C17_handler_fixed_at_invocation (s : St) (m : ModId) (md : Mod) (evts : List Evt) (hm : s.mods[m]? = some md)
    (he : evts ≠ []) (h' : Nat) :
    ∃ k, runP (callPubsubCb m evts) s = (setCurrOf m (some m) s, .inr (.evt (md.recvs.headD 0), m, evts, k)) ∧
      -- and it does not depend on what `become` will push later
      md.recvs.headD 0 = ((h' :: md.recvs).tail).headD 0 := by
  obtain ⟨k, hk⟩ := C17_invocation_uses_top_of_stack s m md evts hm he
  exact ⟨k, hk, rfl⟩

def demo : List Op :=
  [.ctxReg false, .reg "h0" "A" 5 {} {}, .start 0, .become 0 3, .become 0 5, .tell 0 0 1 false, .dispatch, .dispatch, .unbecome 0, .ret true,
   .tell 0 0 2 false, .dispatch, .ret true, .stop 0, .start 0, .tell 0 0 3 false, .dispatch]

def cfg0 : Cfg := { st := { batches := [[.ps "h0"], [.ps "h0"], [.ps "h0"]] } }

/-- handlers used: #5 (top), then #3 after the unbecome made inside the first invocation, then #0 after stop/start -/
example : ((run cfg0 demo).st.out.filterMap fun o => match o with | .invoke cb _ _ => some cb | _ => none)
    = [.evt 5, .evt 3, .evt 0] := by decide +kernel


/-- tie A: the guard prefixes of the entry points this property is about, re-extracted from the source on every run,
are the ones the model transcribes (`Lm.Inst.CoreTie`) -/
theorem C17_guards_in_source :
    Lm.Inst.CoreTie.slice Lm.Generated.CoreGuards.guards ["m_mod_become", "m_mod_unbecome"] = Lm.Inst.CoreTie.slice Lm.Inst.CoreTie.expected ["m_mod_become", "m_mod_unbecome"] := by decide

end Lm.Props.C17
