import Lm.Inst.CoreTie
import Lm.Props.C02
/-! # C08 — Messages to one module arrive in send order; poison pill is ordered too

The mailbox of a module is a FIFO: sends append at the end (`C02_eligible_gets_one_copy`), the loop takes the
head (`recv_events`), the final flush walks it front to back.  Pipe FIFO order itself is the kernel's. -/
namespace Lm.Props.C08
open Lm.Core

/-- two consecutive sends to the same module end up in the mailbox in that order, behind what was already there -/
theorem C08_sends_keep_order (s : St) (m1 m2 : Msg) (k1 k2 : TellKey) (r : ModId) (md : Mod) (q : List Msg)
    (hm : s.mods[r]? = some md) (he : md.state = .running ∨ md.state = .paused) (hp : md.pipe = some q)
    (hroom : q.length + 1 + md.pipeSkip < pipeCap) :
    ∃ c1 c2 md', (tellIf (tellIf s m1 k1 r) m2 k2 r).mods[r]? = some md' ∧ md'.pipe = some (q ++ [c1, c2]) ∧
      c1.payload = m1.payload ∧ c2.payload = m2.payload := by
  obtain ⟨c1, md1, h1, p1, _, _, pay1, _, st1, _, sk1⟩ := Lm.Props.C02.C02_eligible_gets_one_copy s m1 k1 r md q hm he hp (by omega)
  obtain ⟨c2, md2, h2, p2, _, _, pay2, _, _, _, _⟩ := Lm.Props.C02.C02_eligible_gets_one_copy (tellIf s m1 k1 r) m2 k2 r md1 (q ++ [c1]) h1
    (by rw [st1]; exact he) p1 (by rw [sk1]; simp; omega)
  exact ⟨c1, c2, md2, h2, by rw [p2]; simp, pay1, pay2⟩

/-- the flush at loop stop hands the handler the messages that precede a pill, in mailbox order; the pill and
everything behind it are not delivered -/
theorem C08_flush_prefix_in_order (q : List Msg) :
    q = q.takeWhile (fun x => !x.pill) ++ q.dropWhile (fun x => !x.pill) ∧
    (∀ x ∈ q.takeWhile (fun x => !x.pill), x.pill = false) ∧
    (∀ x, (q.dropWhile (fun x => !x.pill)).head? = some x → x.pill = true) := by
  refine ⟨(List.takeWhile_append_dropWhile).symm, fun x hx => ?_, fun x hx => ?_⟩
  · induction q with
    | nil => simp at hx
    | cons a l ih =>
      by_cases ha : a.pill = true
      · simp [List.takeWhile, ha] at hx
      · simp [List.takeWhile, ha] at hx
        rcases hx with rfl | hx
        · simpa using ha
        · exact ih hx
  · induction q with
    | nil => simp at hx
    | cons a l ih =>
      by_cases ha : a.pill = true
      · simp [List.dropWhile, ha] at hx; subst hx; exact ha
      · simp [List.dropWhile, ha] at hx; exact ih hx

/-- the one-shot rule applied by the final flush (D-03c) only ever drops messages: what is handed over is a subsequence of the
messages in front of the pill, so mailbox order is kept -/
theorem C08_flush_keeps_order (m : ModId) : ∀ (pre : List Msg) (s : St), (flushKeep m pre s).Sublist pre
  | [], _ => by simp [flushKeep]
  | x :: xs, s => by
    unfold flushKeep
    split
    · split
      · exact List.Sublist.cons _ (C08_flush_keeps_order m xs _)
      · exact List.Sublist.cons_cons _ (C08_flush_keeps_order m xs _)
    · exact List.Sublist.cons_cons _ (C08_flush_keeps_order m xs _)

/-- a pill sent to a RUNNING module is appended behind every earlier message, like any other message -/
theorem C08_pill_is_ordered (s : St) (m r : ModId) (md : Mod) (q : List Msg)
    (hm : (s.updMod m fun x => { x with sent := x.sent + 1 }).mods[r]? = some md) (he : md.state = .running) (hp : md.pipe = some q)
    (hroom : q.length + md.pipeSkip < pipeCap) :
    ∃ c md', (tellSystem s (some r) (some m) T_POISONPILL true).mods[r]? = some md' ∧ md'.pipe = some (q ++ [c]) ∧ c.pill = true := by
  unfold tellSystem tellPubsub
  simp only
  obtain ⟨c, md', h1, h2, _, _, _, _, _, h3, _⟩ := Lm.Props.C02.C02_eligible_gets_one_copy
    (s.updMod m fun x => { x with sent := x.sent + 1 })
    { sender := some m, topic := some T_POISONPILL, payload := 0, sys := true, holder := none, sub := none, pill := true }
    .direct r md q hm (Or.inl he) hp hroom
  exact ⟨c, md', h1, h2, h3⟩


open Lm.Props.C02 in
/-- **Publications reach a subscriber in the order in which they were published**: two consecutive `m_mod_ps_publish` calls on a
topic that a RUNNING or PAUSED module is subscribed to append their copies to its mailbox in that order, behind what was there -/
theorem C08_publications_keep_order (s : St) (m1 m2 : Msg) (t : String) (h1 : m1.topic = some t) (h2 : m2.topic = some t)
    (k : ModId) (md : Mod) (sub : SrcId) (q : List Msg)
    (hm : s.mods[k]? = some md) (hk : k ∈ s.tableOrder) (he : md.state = .running ∨ md.state = .paused)
    (hf : fetchSub s md t = some sub) (hp : md.pipe = some q) (hroom : q.length + 1 + md.pipeSkip < pipeCap) :
    ∃ c1 c2 md', (tellPubsub (tellPubsub s m1 none) m2 none).mods[k]? = some md' ∧ md'.pipe = some (q ++ [c1, c2]) ∧
      c1.payload = m1.payload ∧ c2.payload = m2.payload := by
  have htab := publish_keeps_table_order s m1 t h1
  rw [C02_publish_is_the_table_walk s m1 t h1] at htab
  rw [C02_publish_is_the_table_walk (tellPubsub s m1 none) m2 t h2, C02_publish_is_the_table_walk s m1 t h1, htab]
  have hn := C02_table_walk_visits_once s
  have e1 := pubWalk_explicit m1 t s.tableOrder s hn k md sub q hm hk he hf hp (by omega)
  have hs := pubWalk_srcs m1 t s.tableOrder s
  have hf2 : fetchSub (pubWalk s m1 t s.tableOrder) { md with pipe := some (q ++ [{ m1 with sub := some sub, rcpt := some k }]) } t = some sub := by
    rw [fetchSub_congr s _ _ t hs.1 hs.2]
    unfold fetchSub at hf ⊢
    exact hf
  have e2 := pubWalk_explicit m2 t s.tableOrder _ hn k _ sub (q ++ [{ m1 with sub := some sub, rcpt := some k }]) e1 hk he hf2 rfl (by simp; omega)
  exact ⟨{ m1 with sub := some sub, rcpt := some k }, { m2 with sub := some sub, rcpt := some k }, _, e2, by simp, rfl, rfl⟩

/-- tie A: the guard prefixes of the entry points this property is about, re-extracted from the source on every run,
are the ones the model transcribes (`Lm.Inst.CoreTie`) -/
theorem C08_guards_in_source :
    Lm.Inst.CoreTie.slice Lm.Generated.CoreGuards.guards ["m_mod_ps_poisonpill", "m_mod_ps_tell", "m_mod_ps_publish"] = Lm.Inst.CoreTie.slice Lm.Inst.CoreTie.expected ["m_mod_ps_poisonpill", "m_mod_ps_tell", "m_mod_ps_publish"] := by decide

end Lm.Props.C08
