import Lm.Core.Machine
import Lm.Core.Lemmas
import Lm.Inv.CoreOut
import Lm.Inv.CoreSafe
/-! # C04 — Memory: no use after free, no double free, no leak for any call sequence

Partial.  Memory safety of the C code is a property of the runtime, not of the model: it is sampled by running every
correspondence script of every core property under ASan/UBSan (a sanitizer report is a `FAULT` line, which no model
produces).  What the model carries are the ownership rules whose violation produced the defects that were found:
a payload handed over with AUTOFREE is freed with its last reference and never again; a module object is never
forgotten while a handle may still name it (ZOMBIE is final and the handle keeps resolving). -/
namespace Lm.Props.C04
open Lm.Core

/-- an AUTOFREE payload is freed exactly when its last reference is dropped -/
theorem C04_free_iff_last_reference (s : St) (i : HolderId) (n : Nat) (h : s.holders[i]? = some n) :
    (holderUnref s (some i)).out = if n = 1 then s.out ++ [.free (s.holderPayload[i]?.getD 0)] else s.out := by
  simp only [holderUnref, h]
  split <;> simp [St.emit]

/-- once its count is zero nothing frees it a second time, and the count stays zero -/
theorem C04_never_freed_twice (s : St) (i : HolderId) (h : s.holders[i]? = some 0) :
    (holderUnref s (some i)).out = s.out ∧ (holderUnref s (some i)).holders[i]? = some 0 := by
  have hlt : i < s.holders.length := by
    rcases Nat.lt_or_ge i s.holders.length with h' | h'
    · exact h'
    · simp [List.getElem?_eq_none h'] at h
  simp only [holderUnref, h]
  simp [hlt]

/-- a temporary reference on a live payload (taken around a dispatch) is neutral: it frees nothing and restores the count -/
theorem C04_temporary_reference_neutral (s : St) (i : HolderId) (n : Nat) (h : s.holders[i]? = some n) (hn : 0 < n) :
    (holderUnref (holderRef s (some i)) (some i)).out = s.out ∧
    (holderUnref (holderRef s (some i)) (some i)).holders = s.holders := by
  have hlt : i < s.holders.length := by
    rcases Nat.lt_or_ge i s.holders.length with h' | h'
    · exact h'
    · simp [List.getElem?_eq_none h'] at h
  have hget : s.holders[i] = n := by rw [List.getElem?_eq_getElem hlt] at h; exact Option.some.inj h
  have h1 : (holderRef s (some i)) = { s with holders := s.holders.set i (n + 1) } := by simp [holderRef, h]
  have h2 : ({ s with holders := s.holders.set i (n + 1) } : St).holders[i]? = some (n + 1) := by simp [hlt]
  rw [h1]
  simp only [holderUnref, h2]
  have hne : ¬ (n + 1 = 1) := by omega
  simp only [hne, if_false]
  refine ⟨trivial, ?_⟩
  simp only [Nat.add_sub_cancel, List.set_set]
  apply List.ext_getElem?; intro j
  by_cases hij : i = j
  · subst hij; simp [hlt, hget]
  · simp [List.getElem?_set_ne hij]

/-- messages that carry no AUTOFREE payload never cause a free -/
theorem C04_plain_message_frees_nothing (s : St) (msg : Msg) (h : msg.holder = none) : destroyMsg s msg = s := by
  simp [destroyMsg, holderUnref, h]

/-- the stop, reset and removal paths free payloads only through the reference count (never directly):
everything they append to the trace is a payload free, a pipe end or an AUTOCLOSE descriptor -/
theorem C04_teardown_paths_only_unref (s : St) (m : ModId) :
    (∃ l, (manageSrcsRm s m true).out = s.out ++ l ∧ ∀ o ∈ l, Allowed s o) ∧
    (∃ l, (resetModule s m).out = s.out ++ l ∧ ∀ o ∈ l, Allowed s o) ∧
    (∃ l, (flushDestroy s m).out = s.out ++ l ∧ ∀ o ∈ l, Allowed s o) :=
  ⟨(emits_manageSrcsRm m true s).2, (emits_resetModule m s).2, (emits_flushDestroy m s).2⟩

/-- a module object is never lost while handles may name it: in every reachable configuration and for every further
history, a module that existed still exists, keeps its name, and if it was a ZOMBIE it still is one -/
theorem C04_module_objects_persist (ops : List Op) :
    CfgOK Inv Mono (run {} ops) := reach_inv ops

end Lm.Props.C04
