import Lm.Inst.CoreTie
import Lm.Inv.CoreSafe
import Lm.Inv.CoreGuards
/-! # C09 — Per-module source registry behaves as a keyed set for every source kind

The registry of a module is `md.srcs` (descriptors, timers, signals, …) and `md.subs` (topic subscriptions);
`findSrc` is the lookup by identifying value (kind, key, and — for library-internal timers — their role). -/
namespace Lm.Props.C09
open Lm.Core

/-- ids stored in a module's registry refer to existing source objects -/
def WfSrcs (s : St) (m : ModId) : Prop := ∀ md, s.mods[m]? = some md → ∀ i ∈ md.srcs, i < s.srcs.length

/-- registering a key that is already present fails with -EEXIST and leaves the registry untouched -/
theorem C09_present_key_refused (s : St) (m : ModId) (x : Src) (i : SrcId) (h : findSrc s m x.kind x.key x.role = some i) :
    (addSrc s m x).2 = EEXIST ∧ (addSrc s m x).1.mods = s.mods ∧ (addSrc s m x).1.srcs = s.srcs := by
  unfold addSrc
  simp only [h]
  split <;> simp [St.emit]

/-- registering a new key succeeds: a new source object carrying the key is created (polled at once iff the
module is RUNNING) and added to the module's registry -/
theorem C09_new_key_registered (s : St) (m : ModId) (md : Mod) (x : Src) (hm : s.mods[m]? = some md)
    (h : findSrc s m x.kind x.key x.role = none)
    (hk : ¬ (x.kind == .fd && stateIs s m .running && s.srcs.any (fun y => y.kind == .fd && y.key == x.key && y.polled && y.registered)) = true)
    (hp : ¬ (x.kind == .fd && stateIs s m .running && unpollable x.key) = true) :
    (addSrc s m x).2 = 0 ∧
    (addSrc s m x).1.srcs = s.srcs ++ [{ x with polled := stateIs s m .running, registered := true }] ∧
    (addSrc s m x).1.mods[m]? = some { md with srcs := md.srcs ++ [s.srcs.length] } := by
  have hlt : m < s.mods.length := (List.getElem?_eq_some_iff.mp hm).1
  have hget : s.mods[m] = md := (List.getElem?_eq_some_iff.mp hm).2
  unfold addSrc
  simp only [h, hk, hp, Bool.false_eq_true, if_false]
  refine ⟨?_, ?_, ?_⟩
  · trivial
  · simp
  · simp [St.updMod, hm, hlt, hget]

/-- a descriptor the poll set refuses (a regular file) offered to a RUNNING module: the kernel's error comes back and the
registration leaves no trace — neither in the registry nor in the source table; a duplicate made on request is closed again -/
theorem C09_unpollable_leaves_no_trace (s : St) (m : ModId) (x : Src)
    (h : findSrc s m x.kind x.key x.role = none)
    (hk : ¬ (x.kind == .fd && stateIs s m .running && s.srcs.any (fun y => y.kind == .fd && y.key == x.key && y.polled && y.registered)) = true)
    (hp : (x.kind == .fd && stateIs s m .running && unpollable x.key) = true) :
    (addSrc s m x).2 = EPERM ∧ (addSrc s m x).1.mods = s.mods ∧ (addSrc s m x).1.srcs = s.srcs ∧
    (addSrc s m x).1.out = if x.dup then s.out ++ [.close (.dup x.key)] else s.out := by
  unfold addSrc
  simp only [h, hk, hp, Bool.false_eq_true, if_false, if_true]
  split <;> simp [St.emit]

/-- the lookup finds a registered source by its identifying value, wherever it sits in the registry -/
theorem C09_lookup_finds_key (s : St) (m : ModId) (md : Mod) (i : SrcId) (x : Src) (hm : s.mods[m]? = some md)
    (hi : i ∈ md.srcs) (hx : s.srcs[i]? = some x) (hr : x.registered = true) :
    (findSrc s m x.kind x.key x.role).isSome = true := by
  unfold findSrc
  simp only [hm]
  rw [List.find?_isSome]
  exact ⟨i, hi, by simp [hx, hr]⟩

/-- removing a source takes exactly that one out of the module's registry -/
theorem C09_remove_takes_exactly_that_one (s : St) (m : ModId) (md : Mod) (i : SrcId) (hm : s.mods[m]? = some md) :
    ∃ md', (removeSrc s m i).mods[m]? = some md' ∧ md'.srcs = md.srcs.filter (· != i) ∧ md'.subs = md.subs.filter (· != i) := by
  have hlt : m < s.mods.length := (List.getElem?_eq_some_iff.mp hm).1
  have hget : s.mods[m] = md := (List.getElem?_eq_some_iff.mp hm).2
  refine ⟨{ md with srcs := md.srcs.filter (· != i), subs := md.subs.filter (· != i) }, ?_, rfl, rfl⟩
  have hd : ∀ st : St, (destroySrc st i).mods = st.mods := by
    intro st
    unfold destroySrc
    split
    · simp only; split <;> simp
    · rfl
  unfold removeSrc
  rw [hd]
  simp [St.updMod, hm, hlt, hget]

/-- task sources cannot be deregistered; bad parameters are rejected before anything else, without effect -/
theorem C09_task_and_bad_params (s : St) (m : ModId) (key : Nat) (k : SrcKind) (x : Src) (pb : Nat) :
    Refuses (apiDeregSrc m true .task key) s EPERM ∧ Refuses (apiDeregSrc m false k key) s EINVAL ∧
    Refuses (apiRegSrc m false x pb) s EINVAL := by
  refine ⟨?_, ?_, ?_⟩ <;> simp [Refuses, apiDeregSrc, apiRegSrc]

/-- deregistering an absent key fails (-EINVAL when the module has no source of that kind, -ENOENT otherwise) without effect -/
theorem C09_absent_key_refused (s s' : St) (m : ModId) (md md' : Mod) (k : SrcKind) (key : Nat) (hk : k ≠ .task)
    (hm : s.mods[m]? = some md) (hma : modAssert s m = none) (ht : consumeToken s m = some s')
    (hm' : s'.mods[m]? = some md') (ha : findSrc s' m k key .user = none) :
    ∃ code : Int, code < 0 ∧ runP (apiDeregSrc m true k key) s = (s', .inl code) := by
  have hk' : (k == SrcKind.task) = false := by simpa using hk
  unfold apiDeregSrc
  simp only [Bool.not_true, Bool.false_eq_true, if_false, hk']
  rw [guarded_pass_tok s s' m md noDeny none _ hm hma rfl (by simp [maskOk]) ht]
  simp only [runP_getSt_bind, hm', ha]
  split
  · exact ⟨EINVAL, by decide, rfl⟩
  · exact ⟨ENOENT, by decide, rfl⟩

/-- all sources are dropped when the module is stopped … -/
theorem C09_stop_drops_all (md : Mod) : md.reset.subs = [] := rfl

/-- … while pause keeps every source registered (they only leave the poll set) -/
theorem C09_pause_keeps_sources (s : St) (m : ModId) (md : Mod) (hm : s.mods[m]? = some md) :
    ∃ md', (manageSrcsRm s m false).mods[m]? = some md' ∧ md'.srcs = md.srcs ∧ md'.subs = md.subs := by
  have hlt : m < s.mods.length := (List.getElem?_eq_some_iff.mp hm).1
  have hget : s.mods[m] = md := (List.getElem?_eq_some_iff.mp hm).2
  unfold manageSrcsRm
  simp only [hm, Bool.false_eq_true, if_false]
  have : ∀ (l : List SrcId) (st : St), (l.foldl (fun s i => s.updSrc i fun x => { x with polled := false }) st).mods = st.mods := by
    intro l
    induction l with
    | nil => intro st; rfl
    | cons a l ih => intro st; simp only [List.foldl_cons]; rw [ih]; simp
  rw [this]
  exact ⟨{ md with pipePolled := false }, by simp [St.updMod, hm, hlt, hget], rfl, rfl⟩

/-- the reported count is the number of registered, non-internal sources and subscriptions -/
theorem C09_count (s : St) (m : ModId) (md : Mod) (hm : s.mods[m]? = some md) (hma : modAssert s m = none) :
    runP (apiSrcLen m) s = (s, .inl (userCount s md : Int)) := by
  unfold apiSrcLen
  rw [guarded_pass_notok s m md noDeny none _ hm hma rfl (by simp [maskOk])]
  simp only [runP_getSt_bind, hm, runP_pure]

def demo : List Op :=
  [.ctxReg false, .reg "h0" "A" 5 {} {}, .regSrc 0 true { kind := .fd, owner := 0, key := 3, prio := .high } 0,
   .regSrc 0 true { kind := .fd, owner := 0, key := 3, prio := .high } 0, .regSrc 0 true { kind := .tmr, owner := 0, key := 1000 } 0,
   .srcLen 0, .deregSrc 0 true .fd 3, .deregSrc 0 true .fd 3, .srcLen 0]

example : ((run {} demo).st.out.filterMap fun o => match o with | .ret c => some c | _ => none) = [0, 0, 0, -17, 0, 2, 0, -22, 1] := by
  decide +kernel


/-- tie A: the guard prefixes of the entry points this property is about, re-extracted from the source on every run,
are the ones the model transcribes (`Lm.Inst.CoreTie`) -/
theorem C09_guards_in_source :
    Lm.Inst.CoreTie.slice Lm.Generated.CoreGuards.guards ["register_mod_src", "deregister_mod_src", "m_mod_src_len", "m_mod_ps_subscribe", "m_mod_ps_unsubscribe", "m_mod_src_register_fd", "m_mod_src_deregister_fd", "m_mod_src_register_tmr", "m_mod_src_deregister_tmr", "m_mod_src_register_sgn", "m_mod_src_deregister_sgn", "m_mod_src_register_path", "m_mod_src_deregister_path", "m_mod_src_register_pid", "m_mod_src_deregister_pid", "m_mod_src_register_task", "m_mod_src_deregister_task", "m_mod_src_register_thresh", "m_mod_src_deregister_thresh"] = Lm.Inst.CoreTie.slice Lm.Inst.CoreTie.expected ["register_mod_src", "deregister_mod_src", "m_mod_src_len", "m_mod_ps_subscribe", "m_mod_ps_unsubscribe", "m_mod_src_register_fd", "m_mod_src_deregister_fd", "m_mod_src_register_tmr", "m_mod_src_deregister_tmr", "m_mod_src_register_sgn", "m_mod_src_deregister_sgn", "m_mod_src_register_path", "m_mod_src_deregister_path", "m_mod_src_register_pid", "m_mod_src_deregister_pid", "m_mod_src_register_task", "m_mod_src_deregister_task", "m_mod_src_register_thresh", "m_mod_src_deregister_thresh"] := by decide

end Lm.Props.C09
