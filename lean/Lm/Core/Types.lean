/-!
# Core machine: state of one context and its modules (Lib/core/{ctx,mod,ps,src,evts}.c)

Everything the C structs hold that the properties talk about.  Module, source and holder objects
live in append-only arrays (`mods`, `srcs`, `holders`), ids are indices; "freed" objects stay in the
array with a flag, so dangling raw pointers of the C code are representable.
-/
namespace Lm.Core

abbrev ModId := Nat
abbrev SrcId := Nat
abbrev HolderId := Nat

inductive MState | idle | running | paused | stopped | zombie
  deriving DecidableEq, Repr, Inhabited

inductive CState | idle | looping
  deriving DecidableEq, Repr, Inhabited

inductive SrcKind | ps | fd | tmr | sgn | path | pid | task | thresh
  deriving DecidableEq, Repr, Inhabited

inductive Prio | low | norm | high
  deriving DecidableEq, Repr, Inhabited

/-- role of a library-internal (M_SRC_INTERNAL) timer -/
inductive Role | user | batchTimer | tbTimer
  deriving DecidableEq, Repr, Inhabited

/-- an `ev_src_t`: a registered source of a module, or a topic subscription -/
structure Src where
  kind : SrcKind
  owner : ModId
  key : Nat                 -- fd number / timer ns / signo / pid / task id / threshold key / path id
  topic : String := ""      -- subscriptions
  slot : Nat := 0           -- subscriptions: home slot in the module's subscription table
  prio : Prio := .norm
  oneshot : Bool := false
  autoclose : Bool := false
  dup : Bool := false
  role : Role := .user
  userptr : Nat := 0
  isSub : Bool := false
  polled : Bool := false     -- `ev != NULL`: currently in the poll set
  registered : Bool := true  -- still in its module's registry
  deriving DecidableEq, Repr, Inhabited

/-- a `ps_priv_t` copy in flight to one recipient -/
structure Msg where
  sender : Option ModId
  topic : Option String
  payload : Nat             -- payload identity (0 for system messages)
  sys : Bool
  holder : Option HolderId  -- shared auto-free payload holder
  sub : Option SrcId        -- subscription that matched (publish), none for tell / broadcast
  pill : Bool := false
  rcpt : Option ModId := none  -- the module this copy was made for (every recipient gets its own `ps_priv_t`)
  deriving DecidableEq, Repr, Inhabited

/-- an event as handed to a handler -/
structure Evt where
  kind : SrcKind
  msg : Option Msg := none
  key : Nat := 0
  src : Option SrcId := none
  userdata : Nat := 0
  deriving DecidableEq, Repr, Inhabited

structure ModFlags where
  allowReplace : Bool := false
  persist : Bool := false
  denyCtx : Bool := false
  denyPub : Bool := false
  denySub : Bool := false
  deriving DecidableEq, Repr, Inhabited

structure Hooks where
  start : Bool := false
  stop : Bool := false
  eval : Bool := false
  deriving DecidableEq, Repr, Inhabited

structure TB where
  rate : Nat
  burst : Nat
  tokens : Nat
  deriving DecidableEq, Repr, Inhabited

structure Mod where
  name : String
  slot : Nat                       -- home slot of the name in the context's module table
  ctxId : Nat := 0                 -- the context the module was registered in
  state : MState := .idle
  flags : ModFlags := {}
  hooks : Hooks := {}
  inCtx : Bool := true             -- still in its context's module table
  pipe : Option (List Msg) := none -- mailbox (the pub/sub pipe); none while closed
  pipePolled : Bool := false
  pipeSkip : Nat := 0       -- kernel: messages already read out of the pipe's first page (a page is released only when it is empty)
  pipeGen : Nat := 0        -- how many pipes the module has had (each start creates a new one, with a new PS source)
  srcs : List SrcId := []          -- registered sources (all kinds but subscriptions)
  subs : List SrcId := []          -- subscriptions
  batchLen : Nat := 0
  batchInf : Bool := false         -- batch.len == SIZE_MAX
  batchTimer : Nat := 0
  batch : List Evt := []
  stash : List Evt := []
  recvs : List Nat := []           -- become stack (top first) of handler ids
  tb : Option TB := none           -- none: bucket disabled (unlimited)
  tbTimer : Nat := 0
  sent : Nat := 0
  recv : Nat := 0
  deriving DecidableEq, Repr, Inhabited

structure Ctx where
  id : Nat := 0                     -- identity of the context object
  state : CState := .idle
  quit : Bool := false
  quitCode : Nat := 0
  finalized : Bool := false
  persist : Bool := false
  destroying : Bool := false
  stopping : Bool := false          -- the loop is being stopped: the final flush is running callbacks
  currMod : Option ModId := none
  running : Nat := 0
  recvMsgs : Nat := 0
  tick : Nat := 0                   -- tick period (0: none)
  tickPolled : Bool := false
  tickGen : Nat := 0           -- every `m_ctx_set_tick` makes a new timer source: entries of the old one go stale
  deriving DecidableEq, Repr, Inhabited

inductive Cb | start | stop | eval | evt (h : Nat)
  deriving DecidableEq, Repr, Inhabited

def Cb.name : Cb → String
  | .start => "on_start" | .stop => "on_stop" | .eval => "on_eval" | .evt h => s!"on_evt#{h}"

/-- what a `close(2)` call of the library closes -/
inductive CloseTgt
  | fd (k : Nat)       -- a descriptor the user registered
  | dup (k : Nat)      -- the duplicate made for a registration that was then refused
  | pipeR              -- read end of a module's message pipe
  | pipeW              -- write end of a module's message pipe
  deriving DecidableEq, Repr, Inhabited

/-- observable outputs (the canonical lines of the correspondence) -/
inductive Out
  | ret (code : Int)
  | invoke (cb : Cb) (m : ModId) (evts : List Evt)
  | free (payload : Nat)
  | close (what : CloseTgt)
  | note (s : String)
  deriving DecidableEq, Repr, Inhabited

/-- ghost record of a state change (for C01 clause a) -/
structure Trans where
  m : ModId
  src : MState
  dst : MState
  out : Bool := false     -- the module was already taken out of its context's table (deregistration in progress)
  deriving DecidableEq, Repr, Inhabited

/-- one entry of a recorded poll result, by script handle (parsed by the driver from `ps:h1`, `fd:h1:5`,
`tmr:h1:1000:u|b|t`, `tick`, `!quit`) -/
inductive BatchTok
  | ps (h : String)
  | src (kind : SrcKind) (h : String) (key : Nat) (role : Role)
  | tick
  | forceQuit
  | bad (s : String)
  deriving DecidableEq, Repr, Inhabited

structure St where
  ctx : Option Ctx := none
  mods : List Mod := []
  srcs : List Src := []
  nextCtx : Nat := 0
  deadCtx : List Ctx := []         -- released context objects (their memory may still be read by a suspended loop_stop)
  holders : List Nat := []         -- auto-free payload holders: remaining references
  holderPayload : List Nat := []
  out : List Out := []
  errno : Nat := 0
  batches : List (List BatchTok) := []   -- recorded poll results still to be consumed (environment)
  handles : List (String × Nat) := []   -- script handle token → module id (driver bookkeeping)
  rx : List (String × String) := []    -- regex match table (pattern, topic) supplied by the environment
  trans : List Trans := []             -- ghost
  released : List ModId := []          -- ghost: modules whose user reference was consumed by a successful m_mod_deregister()
  unrefd : List ModId := []            -- ghost: modules whose extra user reference (m_mod_ref) was dropped again
  deriving Repr, Inhabited

-- errno values used by the library
def EPERM : Int := -1
def ENOENT : Int := -2
def EAGAIN : Int := -11
def EACCES : Int := -13
def EEXIST : Int := -17
def EINVAL : Int := -22
def EPIPE : Int := -32

end Lm.Core
