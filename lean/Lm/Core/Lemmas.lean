import Lm.Core.Machine
/-! Rewrite rules for evaluating programs (`runP`) and their weakest preconditions. -/
namespace Lm.Core

theorem Prog.bind_assoc {α β γ} (p : Prog α) (f : α → Prog β) (g : β → Prog γ) :
    (p.bind f).bind g = p.bind (fun a => (f a).bind g) := by
  induction p with
  | pure a => rfl
  | get k ih => simp only [Prog.bind]; congr 1; funext s; exact ih s
  | set s p ih => simp only [Prog.bind]; congr 1
  | call cb m e k ih => simp only [Prog.bind]; congr 1; funext b; exact ih b

@[simp] theorem bind_assoc' {α β γ} (p : Prog α) (f : α → Prog β) (g : β → Prog γ) :
    (p >>= f) >>= g = p >>= (fun a => f a >>= g) := Prog.bind_assoc p f g

@[simp] theorem pure_bind' {α β} (a : α) (f : α → Prog β) : (pure a : Prog α) >>= f = f a := rfl

@[simp] theorem runP_pure {α} (a : α) (s : St) : runP (pure a : Prog α) s = (s, .inl a) := rfl
@[simp] theorem runP_getSt_bind {α} (f : St → Prog α) (s : St) : runP (getSt >>= f) s = runP (f s) s := rfl
@[simp] theorem runP_setSt_bind {α} (x : St) (f : Unit → Prog α) (s : St) : runP (setSt x >>= f) s = runP (f ()) x := rfl
@[simp] theorem runP_modify_bind {α} (g : St → St) (f : Unit → Prog α) (s : St) :
    runP (modify g >>= f) s = runP (f ()) (g s) := rfl
@[simp] theorem runP_getSt (s : St) : runP getSt s = (s, .inl s) := rfl

/-- a program that returns at once with `a` leaving the state untouched -/
def Refuses {α} (p : Prog α) (s : St) (a : α) : Prop := runP p s = (s, .inl a)

end Lm.Core
