import Lm.Core.Lemmas
/-!
# Rely/guarantee program logic for re-entrant callbacks, and its soundness for the machine

`wpA I M p Q a s`: running `p` from `s` (the program was started in the anchor state `a`)
* at every callback: the invariant `I` holds and the monotone relation `M a s` holds;
* after the callback the program continues from **any** state `s'` with `I s'`, `M s s'` and the same
  executing module (what every API program guarantees from its start to its end);
* when it returns, `Q` holds.

`SafeA I M p`: started in an `I`-state, `p` maintains `I`, is monotone (`M`) from its start to every
suspension and to its end, and restores the executing module.  `reach_ok` lifts this to every
configuration reachable by any line sequence: arbitrary callback programs, nesting depth and return values.
-/
namespace Lm.Core

def wpA {α} (I : St → Prop) (M : St → St → Prop) : Prog α → (α → St → Prop) → St → St → Prop
  | .pure x, Q, _, s => Q x s
  | .get k, Q, a, s => wpA I M (k s) Q a s
  | .set s' p, Q, a, _ => wpA I M p Q a s'
  | .call _ _ _ k, Q, a, s => I s ∧ M a s ∧ ∀ b s', I s' → M s s' → wpA I M (k b) Q a s'

theorem wpA_bind {α β} (I M) (p : Prog α) (f : α → Prog β) (Q : β → St → Prop) (a s : St) :
    wpA I M (p.bind f) Q a s ↔ wpA I M p (fun x s' => wpA I M (f x) Q a s') a s := by
  induction p generalizing s with
  | pure x => simp [Prog.bind, wpA]
  | get k ih => simp only [Prog.bind, wpA]; exact ih s s
  | set s' p ih => simp only [Prog.bind, wpA]; exact ih s'
  | call cb m e k ih =>
    simp only [Prog.bind, wpA]
    constructor
    · rintro ⟨h1, h2, h3⟩; exact ⟨h1, h2, fun b s' hs hm => (ih b s').mp (h3 b s' hs hm)⟩
    · rintro ⟨h1, h2, h3⟩; exact ⟨h1, h2, fun b s' hs hm => (ih b s').mpr (h3 b s' hs hm)⟩

theorem wpA_mono {α} (I M) (p : Prog α) (Q Q' : α → St → Prop) (a s : St)
    (h : ∀ x s, Q x s → Q' x s) : wpA I M p Q a s → wpA I M p Q' a s := by
  induction p generalizing s with
  | pure x => exact h x s
  | get k ih => exact ih s s
  | set s' p ih => exact ih s'
  | call cb m e k ih => rintro ⟨h1, h2, h3⟩; exact ⟨h1, h2, fun b s' hs hm => ih b s' (h3 b s' hs hm)⟩

@[simp] theorem wpA_pure {α} (I M) (x : α) (Q) (a s) : wpA I M (pure x : Prog α) Q a s = Q x s := rfl
@[simp] theorem wpA_bind' {α β} (I M) (p : Prog α) (f : α → Prog β) (Q) (a s : St) :
    wpA I M (p >>= f) Q a s ↔ wpA I M p (fun x s' => wpA I M (f x) Q a s') a s := wpA_bind I M p f Q a s
@[simp] theorem wpA_getSt (I M) (Q : St → St → Prop) (a s) : wpA I M getSt Q a s = Q s s := rfl
@[simp] theorem wpA_setSt (I M) (x : St) (Q : Unit → St → Prop) (a s) : wpA I M (setSt x) Q a s = Q () x := rfl
@[simp] theorem wpA_modify (I M) (f : St → St) (Q : Unit → St → Prop) (a s) :
    wpA I M (modify f) Q a s = Q () (f s) := rfl
@[simp] theorem wpA_callCb (I M) (cb m e) (Q : Bool → St → Prop) (a s) :
    wpA I M (callCb cb m e) Q a s =
      (I s ∧ M a s ∧ ∀ b s', I s' → M s s' → Q b s') := rfl

/-- two invariants proved separately can be combined -/
theorem wpA_and {α} (I1 I2 : St → Prop) (M) (p : Prog α) (Q1 Q2 : α → St → Prop) (a s : St) :
    wpA I1 M p Q1 a s → wpA I2 M p Q2 a s → wpA (fun s => I1 s ∧ I2 s) M p (fun x s => Q1 x s ∧ Q2 x s) a s := by
  induction p generalizing s with
  | pure x => exact fun h1 h2 => ⟨h1, h2⟩
  | get k ih => exact ih s s
  | set s' p ih => exact ih s'
  | call cb m e k ih =>
    rintro ⟨h1, h2, h3⟩ ⟨g1, _, g3⟩
    exact ⟨⟨h1, g1⟩, h2, fun b s' hs hm => ih b s' (h3 b s' hs.1 hm) (g3 b s' hs.2 hm)⟩

def Post (I : St → Prop) (M : St → St → Prop) (a : St) : Int → St → Prop :=
  fun _ s' => I s' ∧ M a s'

def SafeA (I : St → Prop) (M : St → St → Prop) (p : Prog Int) : Prop :=
  ∀ s, I s → wpA I M p (Post I M s) s s

/-- what the logic needs from `I` and `M` -/
structure Frameable (I : St → Prop) (M : St → St → Prop) : Prop where
  refl : ∀ s, M s s
  trans : ∀ a b c, M a b → M b c → M a c
  emitI : ∀ s o, I s → I (s.emit o)
  emitM : ∀ a s o, M a s → M a (s.emit o)
  emitM' : ∀ s o b, M (s.emit o) b → M s b
  errnoI : ∀ s e, I s → I { s with errno := e }
  errnoM : ∀ a s e, M a s → M a { s with errno := e }

@[simp] theorem currOf_emit (s : St) (o : Out) : currOf (s.emit o) = currOf s := rfl

/-- the suspended activations of a configuration are consistent with its current state -/
def ChainOK (I : St → Prop) (M : St → St → Prop) : St → List Frame → Prop
  | _, [] => True
  | cur, f :: rest =>
    -- the innermost frame can be resumed from the current state …
    M f.susp cur ∧
    (∀ b s', I s' → M f.susp s' → wpA I M (f.k b) (Post I M f.anchor) f.anchor s') ∧
    -- … and its program was started when the frame below was the innermost one
    ChainOK I M f.anchor rest

def CfgOK (I : St → Prop) (M : St → St → Prop) (c : Cfg) : Prop := I c.st ∧ ChainOK I M c.st c.stack

theorem chain_step (I M) (fr : Frameable I M) (cur cur' : St) (stack : List Frame)
    (h : ChainOK I M cur stack) (hm : M cur cur') : ChainOK I M cur' stack := by
  cases stack with
  | nil => trivial
  | cons f rest =>
    obtain ⟨h1, h3, h4⟩ := h
    exact ⟨fr.trans _ _ _ h1 hm, h3, h4⟩

/-- running a verified program from an OK configuration gives an OK configuration -/
theorem exec_ok (I M) (fr : Frameable I M) (p : Prog Int) : ∀ (c : Cfg) (anchor : St),
    ChainOK I M anchor c.stack → wpA I M p (Post I M anchor) anchor c.st →
    CfgOK I M (exec c anchor p) := by
  induction p with
  | pure x =>
    intro c anchor hch hw
    simp only [wpA, Post] at hw
    obtain ⟨h1, h2⟩ := hw
    refine ⟨fr.emitI _ _ h1, ?_⟩
    show ChainOK I M (c.st.emit (.ret x)) c.stack
    exact chain_step I M fr anchor _ _ hch (fr.emitM _ _ _ h2)
  | get k ih =>
    intro c anchor hch hw
    exact ih c.st c anchor hch hw
  | set s' p ih =>
    intro c anchor hch hw
    exact ih { c with st := s' } anchor hch hw
  | call cb m e k _ =>
    intro c anchor hch hw
    obtain ⟨h1, h2, h3⟩ := hw
    refine ⟨fr.emitI _ _ h1, ?_⟩
    show ChainOK I M (c.st.emit (.invoke cb m e)) ({ k := k, evts := e, anchor := anchor, susp := c.st } :: c.stack)
    exact ⟨fr.emitM _ _ _ (fr.refl _), h3, hch⟩

/-- every API program is safe ⇒ every machine step preserves `CfgOK` -/
theorem step_ok (I M) (fr : Frameable I M) (hsafe : ∀ (c : Cfg) (op : Op), SafeA I M (apiProg c op))
    (c : Cfg) (op : Op) (h : CfgOK I M c) : CfgOK I M (step c op) := by
  obtain ⟨hI, hch⟩ := h
  cases op with
  | ret b =>
    cases hs : c.stack with
    | nil =>
      have : step c (.ret b) = c := by simp [step, hs]
      rw [this]; exact ⟨hI, hch⟩
    | cons f rest =>
      have : step c (.ret b) = exec { c with stack := rest } f.anchor (f.k b) := by simp [step, hs]
      rw [this]
      rw [hs] at hch
      obtain ⟨h1, h3, h4⟩ := hch
      exact exec_ok I M fr (f.k b) { c with stack := rest } f.anchor h4 (h3 b c.st hI h1)
  | errno e =>
    simp only [step]
    refine ⟨fr.errnoI _ _ hI, ?_⟩
    exact chain_step I M fr c.st _ _ hch (fr.errnoM _ _ _ (fr.refl _))
  | foreign hc op' =>
    have hstep : step c (.foreign hc op') = foreignStep c hc op' := rfl
    rw [hstep]
    unfold foreignStep
    simp only
    split
    · split
      · exact ⟨fr.emitI _ _ hI, chain_step I M fr c.st _ _ hch (fr.emitM _ _ _ (fr.refl _))⟩
      · exact ⟨fr.emitI _ _ (fr.emitI _ _ hI),
          chain_step I M fr c.st _ _ hch (fr.emitM _ _ _ (fr.emitM _ _ _ (fr.refl _)))⟩
    · exact ⟨fr.emitI _ _ (fr.emitI _ _ hI),
        chain_step I M fr c.st _ _ hch (fr.emitM _ _ _ (fr.emitM _ _ _ (fr.refl _)))⟩
  | xtell m name pill =>
    have hstep : step c (.xtell m name pill) = xtellStep c m name pill := rfl
    rw [hstep]
    unfold xtellStep
    simp only
    split
    · split
      · exact ⟨fr.emitI _ _ hI, chain_step I M fr c.st _ _ hch (fr.emitM _ _ _ (fr.refl _))⟩
      · exact ⟨fr.emitI _ _ (fr.emitI _ _ hI),
          chain_step I M fr c.st _ _ hch (fr.emitM _ _ _ (fr.emitM _ _ _ (fr.refl _)))⟩
    · exact ⟨fr.emitI _ _ (fr.emitI _ _ hI),
        chain_step I M fr c.st _ _ hch (fr.emitM _ _ _ (fr.emitM _ _ _ (fr.refl _)))⟩
  | _ =>
    all_goals
      simp only [step]
      first
        | exact exec_ok I M fr _ c c.st (chain_step I M fr c.st c.st _ hch (fr.refl _)) (hsafe c _ c.st hI)

theorem reach_ok (I M) (fr : Frameable I M) (hsafe : ∀ (c : Cfg) (op : Op), SafeA I M (apiProg c op))
    (hinit : I {}) (ops : List Op) : CfgOK I M (run {} ops) := by
  have : ∀ (ops : List Op) (c : Cfg), CfgOK I M c → CfgOK I M (run c ops) := by
    intro ops
    induction ops with
    | nil => intro c h; exact h
    | cons o os ih => intro c h; exact ih _ (step_ok I M fr hsafe c o h)
  exact this ops {} ⟨hinit, trivial⟩

end Lm.Core
