import Lm.Core.Prog
/-!
# Core machine: the library functions of ctx.c / mod.c / ps.c / evts.c / src.c as programs

Transcribed statement by statement from the C sources *as they are after the `fix:` commits*.
Each definition names the C function it mirrors.  User callbacks are `callCb` suspension points.
Not modelled here (see DESIGN.md §6): threshold events, what a task function does (a task source is a source whose
event carries the function's result; the harness lets every started task finish before the library goes on), the FUSE fs, stats timestamps, bound modules,
allocation failures, failing system calls.
-/
namespace Lm.Core

/-! ## State access helpers -/

def St.mod? (s : St) (m : ModId) : Option Mod := s.mods[m]?
def St.src? (s : St) (i : SrcId) : Option Src := s.srcs[i]?

def St.updMod (s : St) (m : ModId) (f : Mod → Mod) : St :=
  match s.mods[m]? with
  | some md => { s with mods := s.mods.set m (f md) }
  | none => s

def St.updSrc (s : St) (i : SrcId) (f : Src → Src) : St :=
  match s.srcs[i]? with
  | some x => { s with srcs := s.srcs.set i (f x) }
  | none => s

def St.updCtx (s : St) (f : Ctx → Ctx) : St :=
  match s.ctx with
  | some c => { s with ctx := some (f c) }
  | none => s

/-- update the context object with identity `id` (a module's own context: `mod->ctx`); once that
context was released it is only a piece of memory kept alive by its zombie modules -/
def St.updCtxId (s : St) (id : Nat) (f : Ctx → Ctx) : St :=
  match s.ctx with
  | some c => if c.id == id then { s with ctx := some (f c) }
              else { s with deadCtx := s.deadCtx.map fun d => if d.id == id then f d else d }
  | none => { s with deadCtx := s.deadCtx.map fun d => if d.id == id then f d else d }

def St.ctxIdOf (s : St) (m : ModId) : Nat := match s.mods[m]? with | some md => md.ctxId | none => 0

def St.emit (s : St) (o : Out) : St := { s with out := s.out ++ [o] }

def stateIs (s : St) (m : ModId) (x : MState) : Bool :=
  match s.mods[m]? with | some md => md.state == x | none => false

def isRP (s : St) (m : ModId) : Bool := stateIs s m .running || stateIs s m .paused

/-- modules currently in the context's table -/
def St.tableLen (s : St) : Nat := (s.mods.filter (·.inCtx)).length

/-- the module stored in table slot `i` (names are chosen with distinct home slots) -/
def St.modAtSlot (s : St) (i : Nat) : Option ModId :=
  s.mods.findIdx? (fun md => md.inCtx && md.slot == i)

def St.modByName (s : St) (n : String) : Option ModId :=
  s.mods.findIdx? (fun md => md.inCtx && md.name == n)

def tableSize : Nat := 256
def pipeCap : Nat := 8192
/-- kernel: a pipe is a ring of 16 pages of 512 pointers; a page is handed back only when every pointer in it was read,
so what counts against the capacity is the pending messages plus the ones already read out of the first page -/
def pipePage : Nat := 512
/-- `k` pointers were read from a pipe that held `len` of them -/
def skipAfterRead (skip len k : Nat) : Nat := if k ≥ len then 0 else (skip + k) % pipePage

/-- `m_ctx()`: the thread's context, unless the executing callback belongs to a DENY_CTX module -/
def mctx (s : St) : Option Ctx :=
  match s.ctx with
  | none => none
  | some c =>
    match c.currMod with
    | none => some c
    | some cm =>
      match s.mods[cm]? with
      | some md => if md.flags.denyCtx then none else some c
      | none => some c

/-- record a state change (ghost log) and perform it -/
def setState (s : St) (m : ModId) (x : MState) : St :=
  match s.mods[m]? with
  | some md => { s with mods := s.mods.set m { md with state := x },
                        trans := s.trans ++ [{ m := m, src := md.state, dst := x, out := !md.inCtx }] }
  | none => s

/-! ## Guards -/

/-- `M_MOD_ASSERT`: not a ZOMBIE (-EACCES), called from the module's own context (-EPERM) -/
def modAssert (s : St) (m : ModId) : Option Int :=
  match s.mods[m]? with
  | none => some EINVAL
  | some md =>
    if md.state == .zombie then some EACCES
    else match mctx s with
      | none => some EPERM
      | some c => if c.id == md.ctxId then none else some EPERM

/-- `M_MOD_CONSUME_TOKEN` -/
def consumeToken (s : St) (m : ModId) : Option St :=
  match s.mods[m]? with
  | none => none
  | some md =>
    match md.tb with
    | none => some s
    | some tb => if tb.tokens = 0 then none
                 else some (s.updMod m fun md => { md with tb := some { tb with tokens := tb.tokens - 1 } })

/-! ## Auto-free payload holders and message destruction -/

def holderRef (s : St) (h : Option HolderId) : St :=
  match h with
  | none => s
  | some i => match s.holders[i]? with
    | some n => { s with holders := s.holders.set i (n + 1) }
    | none => s

/-- drop one reference on a payload holder; the payload is freed with the last one -/
def holderUnref (s : St) (h : Option HolderId) : St :=
  match h with
  | none => s
  | some i => match s.holders[i]? with
    | some n =>
      let s1 := { s with holders := s.holders.set i (n - 1) }
      if n = 1 then s1.emit (.free (s.holderPayload[i]?.getD 0)) else s1
    | none => s

/-- `ps_msg_dtor` (the references on sender and subscription belong to the resource layer) -/
def destroyMsg (s : St) (msg : Msg) : St := holderUnref s msg.holder

/-- `evt_dtor`: only pub/sub events own something observable here -/
def destroyEvt (s : St) (e : Evt) : St :=
  match e.msg with
  | some m => destroyMsg s m
  | none => s

/-! ## Pub/sub sending (ps.c) -/

inductive TellKey | direct | bcast | sub (i : SrcId)

/-- the subscription a copy refers to (publish only) -/
def TellKey.subOf : TellKey → Option SrcId
  | .sub i => some i
  | _ => none

/-- `tell_if`: deliver a copy to `r` when it is RUNNING or PAUSED and eligible -/
def tellIf (s : St) (msg : Msg) (key : TellKey) (r : ModId) : St :=
  match s.mods[r]? with
  | none => s
  | some md =>
    if md.state == .running || md.state == .paused then
      let copy := { msg with sub := key.subOf, rcpt := some r }
      let s1 := holderRef s msg.holder
      match md.pipe with
      | some q =>
        if q.length + md.pipeSkip < pipeCap then s1.updMod r fun md => { md with pipe := some (q ++ [copy]) }
        else destroyMsg s1 copy          -- pipe full: the copy is dropped
      | none => destroyMsg s1 copy
    else s

/-- insertion sort (structural, so that examples can be evaluated by the kernel) -/
def insertBy {α} (le : α → α → Bool) (x : α) : List α → List α
  | [] => [x]
  | y :: ys => if le x y then x :: y :: ys else y :: insertBy le x ys

def sortBy {α} (le : α → α → Bool) (l : List α) : List α := l.foldr (insertBy le) []

/-- `fetch_sub`: exact topic first, then the first subscription (table order) whose regex matches -/
def fetchSub (s : St) (md : Mod) (topic : String) : Option SrcId :=
  let live := md.subs.filter fun i => match s.srcs[i]? with | some x => x.registered | none => false
  match live.find? (fun i => match s.srcs[i]? with | some x => x.topic == topic | none => false) with
  | some i => some i
  | none =>
    let sorted := sortBy (fun a b => decide ((s.srcs[a]?.map (·.slot)).getD 0 ≤ (s.srcs[b]?.map (·.slot)).getD 0)) live
    sorted.find? (fun i => match s.srcs[i]? with | some x => s.rx.contains (x.topic, topic) | none => false)

/-- the slots in the order in which iterations scan the table: circularly, starting right after the
first empty slot (map.c `hashmap_first_empty`) -/
def St.scanOrder (s : St) : List Nat :=
  let e := ((List.range tableSize).find? fun i => (s.modAtSlot i).isNone).getD tableSize
  (List.range (tableSize - 1)).map fun i => (e + 1 + i) % tableSize

/-- module ids in table (scan) order -/
def St.tableOrder (s : St) : List ModId :=
  s.scanOrder.filterMap s.modAtSlot

/-- `tell_pubsub_msg` -/
def tellPubsub (s : St) (msg : Msg) (recipient : Option ModId) : St :=
  match recipient with
  | some r => tellIf s msg .direct r
  | none =>
    match msg.topic with
    | none => s.tableOrder.foldl (fun s r => tellIf s msg .bcast r) s
    | some t =>
      s.tableOrder.foldl (fun s r =>
        match s.mods[r]? with
        | some md =>
          if md.state == .running || md.state == .paused then
            match fetchSub s md t with
            | some sub => tellIf s msg (.sub sub) r
            | none => s
          else s
        | none => s) s

/-- `tell_system_pubsub_msg` -/
def tellSystem (s : St) (recipient : Option ModId) (sender : Option ModId) (topic : String)
    (pill : Bool := false) : St :=
  let s1 := match sender with
    | some m => s.updMod m fun md => { md with sent := md.sent + 1 }
    | none => s
  tellPubsub s1 { sender := sender, topic := some topic, payload := 0, sys := true, holder := none, sub := none, pill := pill }
    recipient

def T_CTX_STARTED := "LIBMODULE_CTX_STARTED"
def T_CTX_STOPPED := "LIBMODULE_CTX_STOPPED"
def T_CTX_TICK := "LIBMODULE_CTX_TICK"
def T_MOD_STARTED := "LIBMODULE_MOD_STARTED"
def T_MOD_STOPPED := "LIBMODULE_MOD_STOPPED"
def T_POISONPILL := "LIBMODULE_MOD_POISONPILL"

/-! ## Sources: leaving the poll set / the registry (src.c) -/

/-- `src_priv_dtor` / `subscribtions_dtor` effects that are observable: closing an AUTOCLOSE descriptor -/
def destroySrc (s : St) (i : SrcId) : St :=
  match s.srcs[i]? with
  | some x =>
    let s1 := s.updSrc i fun x => { x with registered := false, polled := false }
    if x.autoclose && !x.isSub then s1.emit (.close (.fd x.key)) else s1
  | none => s

/-- `poll_set_new_evt(RM)` then removal from the registry -/
def removeSrc (s : St) (m : ModId) (i : SrcId) : St :=
  let s1 := s.updMod m fun md => { md with srcs := md.srcs.filter (· != i), subs := md.subs.filter (· != i) }
  destroySrc s1 i

/-! ## Callbacks around hooks and handlers (mod.c `optional_hook`, ps.c `call_pubsub_cb`) -/

def currOf (s : St) : Option ModId := match s.ctx with | some c => c.currMod | none => none

/-- `mod->ctx->curr_mod = x` -/
def setCurrOf (m : ModId) (x : Option ModId) (s : St) : St := s.updCtxId (s.ctxIdOf m) fun c => { c with currMod := x }

/-- `mod->ctx->curr_mod` -/
def currOfMod (s : St) (m : ModId) : Option ModId :=
  match s.ctx with
  | some c => if c.id == s.ctxIdOf m then c.currMod else ((s.deadCtx.find? (·.id == s.ctxIdOf m)).bind (·.currMod))
  | none => ((s.deadCtx.find? (·.id == s.ctxIdOf m)).bind (·.currMod))

/-- the context a module's callbacks update is the module's own one; with one context per thread
that is the thread's context as long as it exists -/
def optionalHook (m : ModId) (cb : Cb) (present : Bool) : Prog Int := do
  let s ← getSt
  let outer := currOfMod s m
  modify (setCurrOf m (some m))
  let b ← (if present then callCb cb m else pure true)
  modify (setCurrOf m outer)
  let s ← getSt
  -- on_stop's result is ignored by the C code (`bool_ret` stays true)
  let b := match cb with | .stop => true | _ => b
  if stateIs s m .zombie then pure ENOENT else pure (if b then 0 else -1)

/-- destroy a queue of events (`m_queue_free` with `mem_dtor`), except those the user stashed -/
def destroyEvts (s : St) (evts : List Evt) (keep : List Evt) : St :=
  evts.foldl (fun s e => if keep.contains e then s else destroyEvt s e) s

/-- `call_pubsub_cb` -/
def callPubsubCb (m : ModId) (evts : List Evt) : Prog Unit := do
  if evts.isEmpty then pure () else do
    let s ← getSt
    let outer := currOfMod s m
    modify (setCurrOf m (some m))
    let h := match s.mods[m]? with
      | some md => md.recvs.headD 0
      | none => 0
    let _ ← callCb (.evt h) m evts
    modify fun s => (s.updMod m fun md => { md with recv := md.recv + evts.length })
    modify (setCurrOf m outer)
    -- events that were stashed meanwhile (by this module, or by another one that was handed the event) hold their
    -- own reference and survive
    modify fun s =>
      let keep := s.mods.flatMap (·.stash)
      destroyEvts s evts keep

/-! ## Module life cycle (mod.c) -/

/-- `flush_pubsub_msgs(NULL, NULL, mod)`: destroy every pending message of a module being stopped -/
def flushDestroy (s : St) (m : ModId) : St :=
  match s.mods[m]? with
  | some md =>
    match md.pipe with
    | some q => (q.foldl destroyMsg s).updMod m fun md => { md with pipe := some [], pipeSkip := 0 }
    | none => s
  | none => s

def kindRank : SrcKind → Nat
  | .ps => 0 | .fd => 1 | .tmr => 2 | .sgn => 3 | .path => 4 | .pid => 5 | .task => 6 | .thresh => 7

def roleRank : Role → Nat | .user => 0 | .batchTimer => 1 | .tbTimer => 2

/-- registry iteration order: by type, then comparator order inside each ordered set -/
def sortSrcs (s : St) (l : List SrcId) : List SrcId :=
  sortBy (fun a b =>
    match s.srcs[a]?, s.srcs[b]? with
    | some x, some y =>
      let ka := (kindRank x.kind, x.key, roleRank x.role)
      let kb := (kindRank y.kind, y.key, roleRank y.role)
      decide (ka.1 < kb.1) || (ka.1 == kb.1 && (decide (ka.2.1 < kb.2.1) || (ka.2.1 == kb.2.1 && decide (ka.2.2 ≤ kb.2.2))))
    | _, _ => true) l

/-- `manage_srcs(mod, c, RM, stop)` -/
def manageSrcsRm (s : St) (m : ModId) (stop : Bool) : St :=
  match s.mods[m]? with
  | none => s
  | some md =>
    if stop then
      -- PS source first: pending messages are destroyed, the read end of the pipe is closed
      let s1 := if md.pipe.isSome then (flushDestroy s m).emit (.close .pipeR) else s
      let s2 := s1.updMod m fun md => { md with pipePolled := false }
      (sortSrcs s md.srcs).foldl (fun s i => removeSrc s m i) s2
    else
      let s1 := s.updMod m fun md => { md with pipePolled := false }
      md.srcs.foldl (fun s i => s.updSrc i fun x => { x with polled := false }) s1

/-- `manage_srcs(mod, c, ADD, false)` -/
def manageSrcsAdd (s : St) (m : ModId) : St :=
  match s.mods[m]? with
  | none => s
  | some md =>
    let s1 := s.updMod m fun md => { md with pipePolled := md.pipe.isSome }
    md.srcs.foldl (fun s i => s.updSrc i fun x => { x with polled := true }) s1

/-- the fields `reset_module` clears -/
def Mod.reset (md : Mod) : Mod :=
  { md with pipe := none, pipeSkip := 0, subs := [], recvs := [], stash := [], batch := [],
            batchLen := 0, batchInf := false, batchTimer := 0, tb := none, tbTimer := 0 }

/-- `reset_module` -/
def resetModule (s : St) (m : ModId) : St :=
  match s.mods[m]? with
  | none => s
  | some md =>
    let s1 := if md.pipe.isSome then s.emit (.close .pipeW) else s
    let s2 := md.subs.foldl (fun s i => removeSrc s m i) s1
    let s3 := destroyEvts s2 md.stash []
    let s4 := destroyEvts s3 md.batch []
    s4.updMod m Mod.reset

/-- the state-changing step of `stop()`: the running counter of the module's context follows, the module
leaves the table when it is being deregistered, the state changes -/
def stopStep (s : St) (m : ModId) (x : MState) (leave : Bool) : St :=
  setState (if leave then
      (if stateIs s m .running then s.updCtxId (s.ctxIdOf m) (fun c => { c with running := c.running - 1 }) else s).updMod m
        (fun y => { y with inCtx := false })
    else (if stateIs s m .running then s.updCtxId (s.ctxIdOf m) (fun c => { c with running := c.running - 1 }) else s)) m x

/-- `stop(mod, stopping)`.  `leave` is set by `mod_deregister`, which takes the module out of its
context's table (`m_map_remove`) right before calling `stop()`: nothing can observe the table between
the two (no callback runs in `manage_srcs`), so the model performs the removal together with the state
change — that keeps "out of the table ⇒ STOPPED or ZOMBIE" true in every intermediate state. -/
def stopP (m : ModId) (stopping : Bool) (leave : Bool := false) : Prog Int := do
  modify fun s => manageSrcsRm s m stopping
  modify fun s => stopStep s m (if stopping then .stopped else .paused) leave
  let s ← getSt
  let hasStop := match s.mods[m]? with | some md => md.hooks.stop | none => false
  let ret ← (if stopping then (do modify (fun s => resetModule s m); optionalHook m .stop hasStop) else pure 0)
  if ret == ENOENT then pure ret
  else do
    modify fun s => tellSystem s none (some m) T_MOD_STOPPED
    pure 0

/-- `start(mod, starting)` -/
def startP (m : ModId) (starting : Bool) : Prog Int := do
  -- init_pubsub_fd: a fresh pipe and its internal source
  modify fun s => if starting then s.updMod m (fun md => { md with pipe := some [], pipeSkip := 0, pipeGen := md.pipeGen + 1 }) else s
  modify fun s => manageSrcsAdd s m
  modify fun s => setState (s.updCtxId (s.ctxIdOf m) fun c => { c with running := c.running + 1 }) m .running
  let s ← getSt
  let hasStart := match s.mods[m]? with | some md => md.hooks.start | none => false
  let ret ← (if starting then optionalHook m .start hasStart else pure 0)
  if ret == 0 then do
    modify fun s => tellSystem s none (some m) T_MOD_STARTED
    pure 0
  else if ret == -1 then do
    let s ← getSt
    -- the stop hook may deregister the module: the callers are told that it is gone (it may have been freed already)
    if isRP s m then do let r ← stopP m true; pure (if r == ENOENT then ENOENT else 0) else pure 0
  else pure ret

/-- `evaluate_module` (thresholds are not modelled) -/
def evaluateP (m : ModId) : Prog Int := do
  let s ← getSt
  if stateIs s m .idle then do
    let hasEval := match s.mods[m]? with | some md => md.hooks.eval | none => false
    let r ← optionalHook m .eval hasEval
    let s ← getSt
    if r == 0 && stateIs s m .idle then do let _ ← startP m true; pure 0 else pure 0
  else pure 0

/-- the model does not follow the C code here: from this point of a script on, the correspondence run compares nothing
(the oracles still judge the implementation's trace); the evidence counts how often this happens -/
def unmodelled (what : String) : Prog Int := do
  modify fun s => s.emit (.note s!"UNMODELLED {what}")
  pure 0

/-- `m_map_iterate` over the context's module table: slots in order; a negative callback result
stops with it, a positive one stops with 0; if the callback removed the current entry the slot is
examined again; if the number of entries changed otherwise the iteration stops with -EACCES.
The slot list carries, after each slot, three "repeat" occurrences that are only used when the C code
would run the entry again (so the recursion stays structural; more than three re-runs of one slot in a
single pass are outside the model: `UNMODELLED`). -/
def canRepeat (rest : List (Nat × Bool)) (i : Nat) : Bool :=
  match rest with
  | (j, true) :: _ => j == i
  | _ => false

def iterSlots (f : ModId → Prog Int) : (slots : List (Nat × Bool)) → (again : Option Nat) → Prog Int
  | [], _ => pure 0
  | (i, isRepeat) :: rest, again => do
    if isRepeat && again != some i then iterSlots f rest again
    else do
      let s ← getSt
      match s.modAtSlot i with
      | none => iterSlots f rest none
      | some m =>
        let n := s.tableLen
        let rc ← f m
        if rc < 0 then pure rc
        else if rc > 0 then pure 0
        else do
          let s' ← getSt
          if s'.modAtSlot i != some m then
            -- (the slot holds another module now and the list has no further occurrence of it: out of the model's scope)
            if (s'.modAtSlot i).isSome && !canRepeat rest i then
              unmodelled "a module-table walk ran one slot more often than the model provides for"
            else iterSlots f rest (some i)
          else if s'.tableLen != n then pure EACCES
          else iterSlots f rest none

def slotList (s : St) : List (Nat × Bool) :=
  s.scanOrder.flatMap fun i => [(i, false), (i, true), (i, true), (i, true)]

/-- `m_iterate(c->modules, fn, NULL)`; `m_map_iterate` refuses an empty map -/
def iterMods (f : ModId → Prog Int) : Prog Int := do
  let s ← getSt
  if s.tableLen = 0 then pure EINVAL else
    let cid := (s.ctx.map (·.id)).getD 0
    -- the table that is walked belongs to the context object the caller holds; if a callback released that context and
    -- registered a new one on the thread, the C code goes on with the (now empty) old table: not modelled
    iterSlots (fun m => do
      let r ← f m
      let s' ← getSt
      match s'.ctx with
      | some c' => if c'.id != cid then (do let _ ← unmodelled "a callback replaced the context whose module table is being walked"; pure 1) else pure r
      | none => pure r) (slotList s) none

/-! ## Deregistration and the context (mod.c `mod_deregister`, ctx.c) -/

/-- `mod_deregister(&mod, from_user)`; `autoRelease` is the call to `m_ctx_deregister()` made when the
last module of an idle, non persistent context goes away -/
def modDeregCore (autoRelease : Prog Int) (m : ModId) : Prog Int := do
  let s ← getSt
  match modAssert s m with
  | some e => pure e
  | none =>
    match s.mods[m]?, s.ctx with
    | some md, some c =>
      if md.flags.persist && c.state == .looping then pure EPERM
      else
        if s.modByName md.name != some m then pure ENOENT   -- already out of its context
        else do
          -- m_map_remove(c->modules, m->name), then stop()
          let _ ← stopP m true true
          modify fun s => setState s m .zombie
          let s ← getSt
          -- the test reads the module's own context object (`m->ctx`): if that one was released meanwhile (by the stop
          -- hook) it stays marked as being destroyed, whatever context the thread has registered since
          match s.ctx with
          | some c =>
            if c.id == s.ctxIdOf m && c.state == .idle && s.tableLen = 0 && !c.persist && !c.destroying then autoRelease
            else pure 0
          | none => pure 0
    | _, _ => pure EPERM

/-- `while (m_map_len(c->modules) > 0 && ret == 0) ret = m_iterate(…, ctx_destroy_mods, …)`:
every pass that does not fail removes at least one module, so `n` = number of modules suffices -/
def destroyLoop : (n : Nat) → Prog Int
  | 0 => pure 0
  | n + 1 => do
    let s ← getSt
    if s.tableLen = 0 then pure 0
    else do
      -- inside the teardown `destroying` is set, so the auto-release branch is never taken
      let r ← iterMods (fun m => modDeregCore (pure EINVAL) m)
      let r := if r == EACCES then 0 else r
      if r != 0 then pure r else destroyLoop n

/-- `m_ctx_deregister` (after the fix: modules first, then the thread key) -/
def ctxDeregisterP : Prog Int := do
  let s ← getSt
  match mctx s with
  | none => pure EPIPE
  | some c =>
    if c.state != .idle then pure EINVAL
    else if c.destroying then pure EINVAL
    else do
      modify fun s => s.updCtx fun c => { c with destroying := true, finalized := true }
      let _ ← destroyLoop (s.tableLen + 1)
      -- pthread_setspecific(key, NULL); m_mem_unref(c)
      modify fun s => { s with ctx := none, deadCtx := (match s.ctx with | some c => [c] | none => []) ++ s.deadCtx }
      pure 0

def modDeregisterP (m : ModId) : Prog Int := modDeregCore ctxDeregisterP m

/-! ## Module objects going away (mod.c `module_dtor`) -/

/-- some undelivered message still names `m` as its sender (each holds a reference on the module) -/
def inFlightFrom (s : St) (m : ModId) : Bool :=
  s.mods.any fun md =>
    (md.pipe.getD []).any (fun x => x.sender == some m) ||
    md.batch.any (fun e => (e.msg.map (·.sender)) == some (some m)) ||
    md.stash.any (fun e => (e.msg.map (·.sender)) == some (some m))

/-- `module_dtor`: once nothing references a ZOMBIE any more (the user's references are gone — all of them when
`allDropped` — and no undelivered message names it as sender) the object is freed, and with it the sources that were
registered on it after its last stop (their AUTOCLOSE descriptors and library-made duplicates are closed) -/
def reapZombies (s : St) (allDropped : Bool) : St :=
  (List.range s.mods.length).foldl (fun s m =>
    match s.mods[m]? with
    | some md =>
      if md.state == .zombie && (allDropped || (s.released.contains m && s.unrefd.contains m)) && !inFlightFrom s m then
        ((md.srcs ++ md.subs).foldl destroySrc s).updMod m fun md => { md with srcs := [], subs := [] }
      else s
    | none => s) s

/-! ## Events: priorities and batching (ctx.c `push_evt`) -/

def srcPrio (s : St) (e : Evt) : Option Prio := e.src.bind fun i => (s.srcs[i]?).map (·.prio)
def srcRole (s : St) (e : Evt) : Role := (e.src.bind fun i => (s.srcs[i]?).map (·.role)).getD .user

/-- `msg->userdata = src->userptr`: an event carries the user data given when its source was registered -/
def stampEvt (s : St) (e : Evt) : Evt :=
  match e.src.bind (fun i => s.srcs[i]?) with
  | some x => { e with userdata := x.userptr }
  | none => e

/-- first half of `push_evt`: internal events are dropped (the bucket timer refills one token), others are queued -/
def pushEvtStore (s : St) (m : ModId) (e : Evt) : St :=
  if srcRole s e != .user then
    if srcRole s e == .tbTimer then
      s.updMod m fun md =>
        match md.tb with
        | some tb => if tb.tokens < tb.burst then { md with tb := some { tb with tokens := tb.tokens + 1 } } else md
        | none => md
    else s
  else
    s.updMod m fun md => { md with batch := md.batch ++ [stampEvt s e] }

/-- `push_evt` -/
def pushEvtP (m : ModId) (e : Evt) : Prog Unit := do
  let s ← getSt
  let role := srcRole s e
  let prio := srcPrio s e
  modify fun s => pushEvtStore s m e
  let force := (role == .batchTimer) || (role == .user && prio == some .high)
  if role == .user && prio == some .low then pure ()
  else do
    let s ← getSt
    match s.mods[m]? with
    | some md =>
      if md.batch.isEmpty then pure ()
      else if force || (!md.batchInf && md.batch.length ≥ md.batchLen) then do
        modify fun s => s.updMod m fun md => { md with batch := [] }
        callPubsubCb m md.batch
      else pure ()
    | none => pure ()

/-! ## The loop (ctx.c) -/

/-- a one-shot subscription is removed once a message for it is read:
`m_map_remove(mod->subscriptions, topic)` — whatever is registered under that topic now -/
def consumeOneshot (s : St) (m : ModId) (md : Mod) (msg : Msg) : St :=
  match msg.sub.bind (fun i => s.srcs[i]?) with
  | some x =>
    if x.oneshot then
      match md.subs.find? (fun j => match s.srcs[j]? with | some y => y.registered && y.topic == x.topic | none => false) with
      | some j => removeSrc s m j
      | none => s
    else s
  | none => s

/-- a one-shot subscription runs once: a message it matched before it fired (or before it was dropped) finds it gone —
`m_map_get(mod->subscriptions, p->ps_src.topic) != p` -/
def oneshotExpired (s : St) (md : Mod) (msg : Msg) : Bool :=
  match msg.sub with
  | some i =>
    match s.srcs[i]? with
    | some x => x.oneshot && !md.subs.contains i
    | none => false
  | none => false

/-- the one-shot rule for one message read by a flush: state effect -/
def flushStep (m : ModId) (s : St) (x : Msg) : St :=
  match s.mods[m]? with
  | some md => if oneshotExpired s md x then destroyMsg s x else consumeOneshot s m md x
  | none => s

/-- the one-shot rule over the messages a flush reads, in order: the messages that are handed over -/
def flushKeep (m : ModId) : List Msg → St → List Msg
  | [], _ => []
  | x :: xs, s =>
    match s.mods[m]? with
    | some md => if oneshotExpired s md x then flushKeep m xs (flushStep m s x) else x :: flushKeep m xs (flushStep m s x)
    | none => x :: flushKeep m xs s

/-- loop-stop variant of `flush_pubsub_msgs` -/
def flushModP (m : ModId) : Prog Int := do
  let s ← getSt
  match s.mods[m]? with
  | none => pure 0
  | some md =>
    match md.pipe with
    | none => pure 0
    | some q =>
      if md.state == .running then do
        let pre := q.takeWhile (fun x => !x.pill)
        let rest := q.dropWhile (fun x => !x.pill)
        let pilled := !rest.isEmpty
        -- messages before the pill become events; the pill itself is destroyed; the rest stays for stop()
        -- events still being batched arrived earlier: they are handed over first
        modify fun s => s.updMod m fun md => { md with pipe := some (rest.drop 1), batch := [],
                                                        pipeSkip := skipAfterRead md.pipeSkip q.length (q.length - (rest.drop 1).length) }
        -- a one-shot subscription is consumed by the first message it matched; the others it matched are discarded
        let s1 ← getSt
        let kept := flushKeep m pre s1
        modify fun s => pre.foldl (flushStep m) s
        let evts := md.batch ++ kept.map fun x => ({ kind := .ps, msg := some x, src := x.sub } : Evt)
        callPubsubCb m evts
        let s ← getSt
        if pilled && isRP s m then do let _ ← stopP m true; pure 0 else pure 0
      else do
        modify fun s => (q.foldl destroyMsg s).updMod m fun md => { md with pipe := some [], pipeSkip := 0 }
        pure 0

/-- `loop_start` -/
def loopStartP : Prog Int := do
  modify fun s => s.updCtx fun c => { c with state := .looping, quit := false, quitCode := 0 }
  -- the tick source is polled before any callback runs (a callback that sets a new tick polls it itself)
  modify fun s => s.updCtx fun c => { c with tickPolled := c.tick != 0 }
  let _ ← iterMods evaluateP
  modify fun s => tellSystem s none none T_CTX_STARTED
  pure 0

/-- `loop_stop(c)`; `cid` identifies the context object the caller holds (the context object `c` stays alive throughout,
even if a callback releases it).  If that context was already released when the function is entered (a callback of the
blocking loop tore it down) the C code works on a dead object while the thread may own another one: not modelled. -/
def loopStopP (cid : Nat) : Prog Int := do
  let s0 ← getSt
  match s0.ctx with
  | none => unmodelled "loop_stop on a context that a callback released"
  | some c0 =>
  if c0.id != cid then unmodelled "loop_stop on a context that a callback released and replaced" else do
  let code0 : Int := c0.quitCode
  -- the callbacks run by the final flush cannot start the loop again (`stopping`)
  modify fun s => s.updCtx fun c => { c with state := .idle, stopping := true }
  modify fun s => tellSystem s none none T_CTX_STOPPED
  let _ ← iterMods flushModP
  let s ← getSt
  let dead : Int := match s.deadCtx.find? (fun c => c.id == cid) with | some c => c.quitCode | none => code0
  match s.ctx with
  | none => pure dead         -- released by a handler run by the flush: its (still allocated) quit code is returned
  | some c =>
    if c.id != cid then pure dead
    else do
      modify fun s => s.updCtx fun c => { c with tickPolled := false, recvMsgs := 0, stopping := false }
      -- the quit code is read after the flush (a re-entrant dispatch may have restarted the loop)
      let code : Int := c.quitCode
      if s.tableLen = 0 && !c.persist then do let _ ← ctxDeregisterP; pure code else pure code

/-- a poll entry as recorded from the implementation -/
inductive PollEnt
  | ps (m : ModId) (gen : Nat)      -- the PS source of the module's `gen`-th pipe
  | src (i : SrcId)
  | tick (gen : Nat)               -- the context's `gen`-th tick source
  | bad (s : String)
  deriving Repr, DecidableEq

/-- one entry of the batch (`for (i…)` body of `recv_events`); returns 1 when an event was received -/
def recvOneP (p : PollEnt) : Prog Nat := do
  let s ← getSt
  match p with
  | .bad t => do modify fun s => s.emit (.note s!"ILLEGAL-BATCH {t}"); pure 0
  | .tick gen =>
    match s.ctx with
    | some c =>
      -- a callback of this batch that set a new tick replaced the source: the entry of the old one is stale
      if !c.tickPolled || c.tickGen != gen then pure 0
      else do modify fun s => tellSystem s none none T_CTX_TICK; pure 1
    | none => pure 0
  | .src i =>
    match s.srcs[i]? with
    | none => pure 0
    | some x =>
      if !x.polled then pure 0       -- left the poll set because of a previous callback of this batch
      else do
        let e : Evt := { kind := x.kind, key := x.key, src := some i }
        modify fun s => if x.oneshot then removeSrc s x.owner i else s
        pushEvtP x.owner e
        pure 1
  | .ps m gen =>
    match s.mods[m]? with
    | none => pure 0
    | some md =>
      -- the entry names the PS source that was polled: after a stop and restart inside this batch it is a dead one
      if !md.pipePolled || md.pipeGen != gen then pure 0
      else match md.pipe with
      | some (msg :: rest) => do
        modify fun s => s.updMod m fun md => { md with pipe := some rest, pipeSkip := skipAfterRead md.pipeSkip (rest.length + 1) 1 }
        -- one-shot subscription: consumed by its first message; later messages it had matched already are discarded
        if oneshotExpired s md msg then do
          modify fun s => destroyMsg s msg
          pure 0
        else do
        modify fun s => consumeOneshot s m md msg
        if msg.pill then do
          -- everything sent before the pill is delivered first, then the module is stopped
          let s ← getSt
          let b := match s.mods[m]? with | some md => md.batch | none => []
          modify fun s => destroyMsg s msg
          modify fun s => s.updMod m fun md => { md with batch := [] }
          callPubsubCb m b
          let s ← getSt
          if isRP s m then do let _ ← stopP m true; pure 1 else pure 1
        else do
          pushEvtP m { kind := .ps, msg := some msg, src := msg.sub }
          pure 1
      | _ =>
        -- stale readiness (the pipe was emptied by a re-entrant dispatch): `read` fails with EAGAIN,
        -- which ends the batch (reported through the error flag below)
        pure 1000000

/-- the `for` loop of `recv_events`; the result is (events received, an error ended the batch) -/
def recvBatchP : List PollEnt → Nat → Prog (Nat × Bool)
  | [], n => pure (n, false)
  | p :: ps, n => do
    let s0 ← getSt
    let k ← recvOneP p
    let s1 ← getSt
    -- (a callback that releases the context and registers a new one in the middle of a batch: not modelled)
    let replaced := match s0.ctx, s1.ctx with
      | some a, some b => a.id != b.id
      | _, _ => false
    if replaced then do let _ ← unmodelled "a callback replaced the context in the middle of a poll batch"; pure (n, true)
    else if k ≥ 1000000 then pure (n, true) else recvBatchP ps (n + k)

/-- `recv_events` for a recorded poll result -/
def recvEventsP (batch : List PollEnt) : Prog Int := do
  let (recved, err) ← recvBatchP batch 0
  if err then pure (recved : Int)
  else if recved > 0 then do
    let _ ← iterMods evaluateP
    modify fun s => s.updCtx fun c => { c with recvMsgs := c.recvMsgs + recved }
    pure (recved : Int)
  else pure 0

/-! ## Public API (guards first, in the order of the C code) -/

/-- guards shared by most module calls: `M_MOD_ASSERT`, optional permission, optional state mask, token -/
def guarded (m : ModId) (deny : ModFlags → Bool) (mask : Option (List MState)) (tok : Bool)
    (body : Prog Int) : Prog Int := do
  let s ← getSt
  match modAssert s m with
  | some e => pure e
  | none =>
    match s.mods[m]? with
    | none => pure EINVAL
    | some md =>
      if deny md.flags then pure EPERM
      else if (match mask with | some l => !l.contains md.state | none => false) then pure EACCES
      else if tok then
        match consumeToken s m with
        | none => pure EAGAIN
        | some s' => do setSt s'; body
      else body

def noDeny : ModFlags → Bool := fun _ => false

def apiStart (m : ModId) : Prog Int := do
  let s ← getSt
  match modAssert s m with
  | some e => pure e
  | none =>
    match s.mods[m]? with
    | none => pure EINVAL
    | some md =>
      if !(md.state == .idle || md.state == .stopped) then pure EACCES
      -- a module being deregistered (already removed from its context) cannot be restarted
      else if s.modByName md.name != some m then pure EACCES
      else match consumeToken s m with
        | none => pure EAGAIN
        | some s' => do setSt s'; startP m true

def apiPause (m : ModId) : Prog Int := guarded m noDeny (some [.running]) true (stopP m false)
def apiResume (m : ModId) : Prog Int := guarded m noDeny (some [.paused]) true (startP m false)
def apiStop (m : ModId) : Prog Int := guarded m noDeny (some [.running, .paused]) true (stopP m true)

def apiBecome (m : ModId) (h : Nat) : Prog Int :=
  guarded m noDeny (some [.running]) true do
    modify fun s => s.updMod m fun md => { md with recvs := h :: md.recvs }
    pure 0

def apiUnbecome (m : ModId) : Prog Int :=
  guarded m noDeny (some [.running]) true do
    let s ← getSt
    match s.mods[m]? with
    | some md =>
      match md.recvs with
      | [] => pure EINVAL
      | _ :: rest => do modify fun s => s.updMod m fun md => { md with recvs := rest }; pure 0
    | none => pure EINVAL

def apiStash (m : ModId) (e : Option Evt) : Prog Int :=
  guarded m noDeny (some [.running]) false do
    match e with
    | none => pure EINVAL
    | some e => do
      let s ← getSt
      match consumeToken s m with
      | none => pure EAGAIN
      | some s' => do
        setSt s'
        if srcPrio s' e == some .high then pure EPERM
        else do modify fun s => s.updMod m fun md => { md with stash := md.stash ++ [e] }; pure 0

def apiUnstash (m : ModId) (n : Nat) : Prog Int :=
  guarded m noDeny (some [.running]) false do
    if n = 0 then pure EINVAL
    else do
      let s ← getSt
      match consumeToken s m with
      | none => pure EAGAIN
      | some s' => do
        setSt s'
        match s'.mods[m]? with
        | none => pure EINVAL
        | some md =>
          let evs := md.stash.take n
          modify fun s => s.updMod m fun md => { md with stash := md.stash.drop n }
          callPubsubCb m evs
          pure (evs.length : Int)

def apiBatchSize (m : ModId) (n : Nat) : Prog Int :=
  guarded m noDeny none true do
    modify fun s => s.updMod m fun md => { md with batchLen := n, batchInf := false }
    pure 0

/-- the module's registered source with this identity -/
def findSrc (s : St) (m : ModId) (kind : SrcKind) (key : Nat) (role : Role) : Option SrcId :=
  match s.mods[m]? with
  | some md => md.srcs.find? fun i =>
      match s.srcs[i]? with
      | some x => x.registered && x.kind == kind && x.key == key && x.role == role
      | none => false
  | none => none

/-- descriptors of the harness pool that the poll set refuses (regular files); a duplicate keeps the property -/
def unpollable (key : Nat) : Bool := key % 100 ≥ 6

/-- `create_src` with M_SRC_DUP: the source owns a duplicate of the user's descriptor — another descriptor (numbered
100 + k here), which is closed with the source whatever the user asked for -/
def dupSrc (x : Src) : Src := if x.dup && x.kind == .fd then { x with key := 100 + x.key, autoclose := true } else x

/-- `create_src`: task and threshold sources are one-shot whatever flags were given (`src->flags |= M_SRC_ONESHOT`) -/
def forceOneshot (x : Src) : Src := if x.kind == .task || x.kind == .thresh then { x with oneshot := true } else x

/-- `create_src`: descriptor sources are high priority whatever was asked for (`src->flags |= M_SRC_PRIO_HIGH`) -/
def forceHigh (x : Src) : Src := if x.kind == .fd then { x with prio := .high } else x

/-- `add_mod_src` (no token) -/
def addSrc (s : St) (m : ModId) (x : Src) : St × Int :=
  match findSrc s m x.kind x.key x.role with
  | some _ =>
    -- rejected duplicate: a descriptor duplicated on request is closed again
    (if x.dup then s.emit (.close (.dup x.key)) else s, EEXIST)
  | none =>
    -- kernel: a descriptor can be in the context's poll set only once (epoll_ctl fails with EEXIST);
    -- the registration is rolled back and leaves no trace
    if x.kind == .fd && stateIs s m .running &&
        s.srcs.any (fun y => y.kind == .fd && y.key == x.key && y.polled && y.registered) then (s, EEXIST)
    -- kernel: regular files cannot be polled (epoll_ctl fails with EPERM; pool descriptors 6 and 7 are regular files);
    -- rolled back without a trace, a duplicate made on request is closed again
    else if x.kind == .fd && stateIs s m .running && unpollable x.key then
      (if x.dup then s.emit (.close (.dup x.key)) else s, EPERM)
    else
    let id := s.srcs.length
    let running := stateIs s m .running
    let s1 := { s with srcs := s.srcs ++ [{ x with polled := running, registered := true }] }
    (s1.updMod m fun md => { md with srcs := md.srcs ++ [id] }, 0)

/-- `rm_mod_src` of a library internal timer (no-op when none was set) -/
def rmInternal (s : St) (m : ModId) (ns : Nat) (role : Role) : St :=
  if ns != 0 then
    match findSrc s m .tmr ns role with
    | some i => removeSrc s m i
    | none => s
  else s

def apiBatchTimeout (m : ModId) (ns : Nat) : Prog Int :=
  guarded m noDeny none true do
    let s ← getSt
    match s.mods[m]? with
    | none => pure EINVAL
    | some md => do
      modify fun s => rmInternal s m md.batchTimer .batchTimer
      modify fun s => s.updMod m fun md => { md with batchTimer := ns }
      if ns != 0 then do
        modify fun s => s.updMod m fun md => if md.batchLen = 0 && !md.batchInf then { md with batchInf := true } else md
        let s ← getSt
        let (s', r) := addSrc s m { kind := .tmr, owner := m, key := ns, prio := .high, role := .batchTimer }
        setSt s'; pure r
      else do
        modify fun s => s.updMod m fun md => if md.batchInf then { md with batchInf := false, batchLen := 0 } else md
        pure 0

def BILLION : Nat := 1000000000

def apiTokenBucket (m : ModId) (rate burst : Nat) : Prog Int :=
  guarded m noDeny none false do
    if rate > BILLION then pure EINVAL
    else do
      let s ← getSt
      match s.mods[m]? with
      | none => pure EINVAL
      | some md => do
        modify fun s => rmInternal s m md.tbTimer .tbTimer
        if rate = 0 then do
          modify fun s => s.updMod m fun md => { md with tb := none, tbTimer := 0 }
          pure 0
        else do
          modify fun s => s.updMod m fun md => { md with tb := some { rate := rate, burst := burst, tokens := burst }, tbTimer := BILLION / rate }
          let s ← getSt
          let (s', r) := addSrc s m { kind := .tmr, owner := m, key := BILLION / rate, prio := .high, role := .tbTimer }
          setSt s'; pure r

/-- a fresh payload holder with one reference (held by `send_msg` itself) -/
def newHolder (s : St) (payload : Nat) : St :=
  { s with holders := s.holders ++ [1], holderPayload := s.holderPayload ++ [payload] }

/-- `send_msg` -/
def sendMsg (s : St) (m : ModId) (recipient : Option ModId) (topic : Option String) (payload : Nat) (af : Bool) : St :=
  let s1 := s.updMod m fun md => { md with sent := md.sent + 1 }
  if af then
    -- the payload holder: one reference held here until every copy was handed out
    let h := s1.holders.length
    holderUnref (tellPubsub (newHolder s1 payload)
      { sender := some m, topic := topic, payload := payload, sys := false, holder := some h, sub := none } recipient) (some h)
  else
    tellPubsub s1 { sender := some m, topic := topic, payload := payload, sys := false, holder := none, sub := none } recipient

def sameCtx (s : St) (m r : ModId) : Bool :=
  match s.mods[m]?, s.mods[r]? with
  | some a, some b => a.ctxId == b.ctxId
  | _, _ => false

def apiTell (m r : ModId) (payload : Nat) (af : Bool) : Prog Int :=
  guarded m (·.denyPub) none false do
    let s ← getSt
    if !sameCtx s m r then pure EINVAL
    else match consumeToken s m with
      | none => pure EAGAIN
      | some s' => do
        setSt s'
        modify fun s => sendMsg s m (some r) none payload af
        pure 0

/-- `count` tells in a row to the same recipient, with consecutive payloads (more than a pipe holds, C02/C04);
the result is the number of calls that were accepted -/
def burstP (m r : ModId) (af : Bool) : (count : Nat) → (payload : Nat) → (acc : Int) → Prog Int
  | 0, _, acc => pure acc
  | n + 1, p, acc => do
    let c ← apiTell m r p af
    burstP m r af n (p + 1) (if c == 0 then acc + 1 else acc)

/-- `strncmp(topic, "LIBMODULE_", 10) == 0` -/
def isSystemTopic (t : String) : Bool := t.toList.take 10 == "LIBMODULE_".toList

def apiPublish (m : ModId) (topic : Option String) (payload : Nat) (af : Bool) : Prog Int :=
  guarded m (·.denyPub) none false do
    if (match topic with | some t => isSystemTopic t | none => false) then pure EPERM
    else do
      let s ← getSt
      match consumeToken s m with
      | none => pure EAGAIN
      | some s' => do
        setSt s'
        modify fun s => sendMsg s m none topic payload af
        pure 0

def apiPill (m r : ModId) : Prog Int :=
  guarded m (·.denyPub) none false do
    let s ← getSt
    if !sameCtx s m r then pure EINVAL
    else if !stateIs s r .running then pure EINVAL
    else match consumeToken s m with
      | none => pure EAGAIN
      | some s' => do
        setSt s'
        modify fun s => tellSystem s (some r) (some m) T_POISONPILL true
        pure 0

def addSub (s : St) (m : ModId) (x : Src) : St :=
  let id := s.srcs.length
  ({ s with srcs := s.srcs ++ [x] }).updMod m fun md => { md with subs := md.subs ++ [id] }

/-- `m_mod_ps_subscribe`; `prioBits` = number of priority bits set in the flags -/
def apiSubscribe (m : ModId) (topic : String) (slot : Nat) (prio : Option Prio) (prioBits : Nat)
    (oneshot : Bool) (userptr : Nat) : Prog Int :=
  guarded m (·.denySub) none false do
    if prioBits > 1 then pure EINVAL
    else do
      let s ← getSt
      match consumeToken s m with
      | none => pure EAGAIN
      | some s' => do
        setSt s'
        let p := prio.getD .norm
        match s'.mods[m]? with
        | none => pure EINVAL
        | some md =>
          let old := md.subs.find? fun i => match s'.srcs[i]? with | some x => x.registered && x.topic == topic | none => false
          match old.bind (fun i => (s'.srcs[i]?).map (fun x => (i, x))) with
          | some (i, _) => do
            -- repeated subscription: updated in place
            modify fun s => s.updSrc i fun x => { x with prio := p, oneshot := oneshot, userptr := userptr }
            pure 0
          | none => do
            modify fun s => addSub s m { kind := .ps, owner := m, key := 0, topic := topic, slot := slot, prio := p,
                                         oneshot := oneshot, userptr := userptr, isSub := true }
            pure 0

def apiUnsubscribe (m : ModId) (topic : String) : Prog Int :=
  guarded m (·.denySub) none true do
    let s ← getSt
    match s.mods[m]? with
    | none => pure EINVAL
    | some md =>
      if md.subs.isEmpty then pure EINVAL
      else match md.subs.find? (fun i => match s.srcs[i]? with | some x => x.registered && x.topic == topic | none => false) with
        | some i => do modify fun s => removeSrc s m i; pure 0
        | none => pure ENOENT

/-- `m_mod_src_register_<kind>`: `paramOk` = the kind specific parameter guard, checked first -/
def apiRegSrc (m : ModId) (paramOk : Bool) (x : Src) (prioBits : Nat) : Prog Int := do
  if !paramOk then pure EINVAL
  else guarded m noDeny none true do
    if prioBits > 1 then pure EINVAL
    else do
      let s ← getSt
      let (s', r) := addSrc s m (forceHigh (forceOneshot (dupSrc x)))
      setSt s'; pure r

def apiDeregSrc (m : ModId) (paramOk : Bool) (kind : SrcKind) (key : Nat) : Prog Int := do
  if !paramOk then pure EINVAL
  else if kind == .task then pure EPERM
  else guarded m noDeny none true do
    let s ← getSt
    match s.mods[m]? with
    | none => pure EINVAL
    | some md =>
      let ofKind := md.srcs.filter fun i => match s.srcs[i]? with | some x => x.kind == kind | none => false
      if ofKind.isEmpty then pure EINVAL
      else match findSrc s m kind key .user with
        | some i => do modify fun s => removeSrc s m i; pure 0
        | none => pure ENOENT

/-- registered, non-internal sources and subscriptions of a module -/
def userCount (s : St) (md : Mod) : Nat :=
  (md.subs ++ md.srcs).countP fun i => match s.srcs[i]? with | some x => x.registered && x.role == .user | none => false

def apiSrcLen (m : ModId) : Prog Int :=
  guarded m noDeny none false do
    let s ← getSt
    match s.mods[m]? with
    | none => pure EINVAL
    | some md =>
      pure (userCount s md : Int)

/-- `m_mod_register` -/
def apiRegister (name : String) (slot : Nat) (flags : ModFlags) (hooks : Hooks) : Prog Int := do
  if name.isEmpty then pure EINVAL
  else do
    let s ← getSt
    match mctx s with
    | none => pure EPIPE
    | some c =>
      if c.finalized then pure EPERM
      else do
        let go : Prog Int := do
          let s ← getSt
          -- `m_map_put` refuses a name that was taken meanwhile (by the replaced module's stop hook):
          -- the registration fails with the default error code
          if (s.modByName name).isSome then pure (-12)
          else match s.ctx with
            | some c' =>
              -- the C code keeps using its `c` pointer: the context cannot have been released meanwhile
              -- (it is protected by `destroying` during a replacement)
              if c'.id == c.id then do
                modify fun s => { s with mods := s.mods ++ [{ name := name, slot := slot, ctxId := c'.id, flags := flags, hooks := hooks }] }
                pure 0
              else do modify fun s => s.emit (.note "CTX-CHANGED-DURING-REGISTER"); pure (-12)
            | none => do modify fun s => s.emit (.note "CTX-CHANGED-DURING-REGISTER"); pure (-12)
        match s.modByName name with
        | some old =>
          match s.mods[old]? with
          | some omd =>
            if !omd.flags.allowReplace then pure EEXIST
            else do
              -- the context must not be released while its last module is being replaced
              modify fun s => s.updCtx fun c => { c with destroying := true }
              let r ← modDeregCore (pure EINVAL) old
              modify fun s => s.updCtx fun c' => { c' with destroying := c.destroying }
              if r != 0 then pure r else go
          | none => go
        | none => go

def apiCtxRegister (persist : Bool) : Prog Int := do
  let s ← getSt
  match s.ctx with
  | some _ => pure EEXIST
  | none => do setSt { s with ctx := some { persist := persist, id := s.nextCtx }, nextCtx := s.nextCtx + 1 }; pure 0

def apiQuit (code : Nat) : Prog Int := do
  let s ← getSt
  match mctx s with
  | none => pure EPIPE
  | some c =>
    if c.state != .looping then pure EINVAL
    else do modify fun s => s.updCtx fun c => { c with quit := true, quitCode := code % 256 }; pure 0

def apiFinalize : Prog Int := do
  let s ← getSt
  match mctx s with
  | none => pure EPIPE
  | some _ => do modify fun s => s.updCtx fun c => { c with finalized := true }; pure 0

def apiCtxLen : Prog Int := do
  let s ← getSt
  match mctx s with
  | none => pure EPIPE
  | some _ => pure (s.tableLen : Int)

def apiSetTick (ns : Nat) : Prog Int := do
  let s ← getSt
  match mctx s with
  | none => pure EPIPE
  | some c => do
    modify fun s => s.updCtx fun c' => { c' with tick := ns, tickPolled := ns != 0 && c.state == .looping, tickGen := c'.tickGen + 1 }
    pure 0

/-- resolve a recorded poll entry against the current registries -/
def resolveEnt (s : St) : BatchTok → PollEnt
  | .tick => .tick ((s.ctx.map (·.tickGen)).getD 0)
  | .ps h => match s.handles.lookup h with
    | some m => .ps m (match s.mods[m]? with | some md => md.pipeGen | none => 0)
    | none => .bad h
  | .src kind h key role =>
    match s.handles.lookup h with
    | some m => match findSrc s m kind key role with | some i => .src i | none => .bad h
    | none => .bad h
  | .forceQuit => .bad "!quit"
  | .bad t => .bad t

/-- take the next recorded poll result -/
def nextBatch : Prog (List PollEnt) := do
  let s ← getSt
  match s.batches with
  | [] => do modify fun s => s.emit (.note "OUT-OF-BATCHES"); pure []
  | b :: rest => do
    setSt { s with batches := rest }
    if b == [.forceQuit] then do
      -- the environment gave up waiting for events: it forces a quit (recorded from the harness)
      modify fun s => s.updCtx fun c => { c with quit := true, quitCode := 77 }
      pure []
    else pure (b.map (resolveEnt s))

/-- `m_ctx_dispatch` -/
def apiDispatch : Prog Int := do
  let s ← getSt
  match mctx s with
  | none => pure EPIPE
  | some c =>
    if c.state == .idle then (if c.destroying || c.stopping then pure EINVAL else loopStartP)
    else if c.quit || c.running = 0 then loopStopP c.id
    else do
      let b ← nextBatch
      recvEventsP b

/-- `while (!c->quit && c->stats.running_modules > 0) recv_events(c, -1);` — one iteration per recorded batch;
`cid`: the context object the loop runs on (the loop ends when a callback released it) -/
def loopBody (cid : Nat) : Nat → Prog Unit
  | 0 => pure ()
  | n + 1 => do
    let s ← getSt
    match s.ctx with
    | some c =>
      if c.id == cid && !c.quit && c.running > 0 then do
        let b ← nextBatch
        let _ ← recvEventsP b
        loopBody cid n
      else pure ()
    | none => pure ()

/-- `m_ctx_loop` -/
def apiLoop : Prog Int := do
  let s ← getSt
  match mctx s with
  | none => pure EPIPE
  | some c =>
    if c.state != .idle then pure EINVAL
    else if c.destroying then pure EINVAL
    else if c.stopping then pure EINVAL
    else do
      let _ ← loopStartP
      let s ← getSt
      loopBody c.id (s.batches.length + 1)
      loopStopP c.id

end Lm.Core
