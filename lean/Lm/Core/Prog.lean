import Lm.Core.Types
/-!
# Library code as programs with a "user callback" effect, and the program logic `wp`

`call` is a suspension point: the user callback may issue any finite sequence of API calls before it
returns, so after it the continuation must be correct from *any* state satisfying the invariant.
-/
namespace Lm.Core

inductive Prog (α : Type) : Type
  | pure : α → Prog α
  | get  : (St → Prog α) → Prog α
  | set  : St → Prog α → Prog α
  | call : Cb → ModId → List Evt → (Bool → Prog α) → Prog α

namespace Prog
def bind {α β} : Prog α → (α → Prog β) → Prog β
  | .pure a, f => f a
  | .get k, f => .get (fun s => (k s).bind f)
  | .set s p, f => .set s (p.bind f)
  | .call cb m e k, f => .call cb m e (fun b => (k b).bind f)
end Prog

instance : Monad Prog where
  pure := .pure
  bind := Prog.bind

def getSt : Prog St := .get .pure
def setSt (s : St) : Prog Unit := .set s (.pure ())
def modify (f : St → St) : Prog Unit := .get (fun s => .set (f s) (.pure ()))
def callCb (cb : Cb) (m : ModId) (e : List Evt := []) : Prog Bool := .call cb m e .pure

/-- run a program until it returns or suspends at a callback -/
def runP {α} : Prog α → St → St × (α ⊕ (Cb × ModId × List Evt × (Bool → Prog α)))
  | .pure a, s => (s, .inl a)
  | .get k, s => runP (k s) s
  | .set s' p, _ => runP p s'
  | .call cb m e k, s => (s, .inr (cb, m, e, k))

/-- weakest precondition with invariant `I` required at every suspension point -/
def wp {α} (I : St → Prop) : Prog α → (α → St → Prop) → St → Prop
  | .pure a, Q, s => Q a s
  | .get k, Q, s => wp I (k s) Q s
  | .set s' p, Q, _ => wp I p Q s'
  | .call _ _ _ k, Q, s => I s ∧ ∀ b s', I s' → wp I (k b) Q s'

theorem wp_bind {α β} (I : St → Prop) (p : Prog α) (f : α → Prog β) (Q : β → St → Prop) (s : St) :
    wp I (p.bind f) Q s ↔ wp I p (fun a s' => wp I (f a) Q s') s := by
  induction p generalizing s with
  | pure a => simp [Prog.bind, wp]
  | get k ih => simp only [Prog.bind, wp]; exact ih s s
  | set s' p ih => simp only [Prog.bind, wp]; exact ih s'
  | call cb m e k ih =>
    simp only [Prog.bind, wp]
    constructor
    · rintro ⟨h1, h2⟩; exact ⟨h1, fun b s' hs => (ih b s').mp (h2 b s' hs)⟩
    · rintro ⟨h1, h2⟩; exact ⟨h1, fun b s' hs => (ih b s').mpr (h2 b s' hs)⟩

theorem wp_mono {α} (I : St → Prop) (p : Prog α) (Q Q' : α → St → Prop) (s : St)
    (h : ∀ a s, Q a s → Q' a s) : wp I p Q s → wp I p Q' s := by
  induction p generalizing s with
  | pure a => exact h a s
  | get k ih => exact ih s s
  | set s' p ih => exact ih s'
  | call cb m e k ih => rintro ⟨h1, h2⟩; exact ⟨h1, fun b s' hs => ih b s' (h2 b s' hs)⟩

@[simp] theorem wp_pure {α} (I) (a : α) (Q) (s) : wp I (pure a : Prog α) Q s = Q a s := rfl
@[simp] theorem wp_bind' {α β} (I : St → Prop) (p : Prog α) (f : α → Prog β) (Q) (s : St) :
    wp I (p >>= f) Q s ↔ wp I p (fun a s' => wp I (f a) Q s') s := wp_bind I p f Q s
@[simp] theorem wp_getSt (I) (Q : St → St → Prop) (s) : wp I getSt Q s = Q s s := rfl
@[simp] theorem wp_setSt (I) (x : St) (Q : Unit → St → Prop) (s) : wp I (setSt x) Q s = Q () x := rfl
@[simp] theorem wp_modify (I) (f : St → St) (Q : Unit → St → Prop) (s) : wp I (modify f) Q s = Q () (f s) := rfl
@[simp] theorem wp_callCb (I) (cb m e) (Q : Bool → St → Prop) (s) :
    wp I (callCb cb m e) Q s = (I s ∧ ∀ b s', I s' → Q b s') := rfl

/-- a program is *safe for `I`*: started in an `I`-state it keeps `I` at every callback boundary and at return -/
def Safe {α} (I : St → Prop) (p : Prog α) : Prop := ∀ s, I s → wp I p (fun _ s' => I s') s

end Lm.Core
