import Lm.Core.Model
/-!
# The machine: API lines, `ret` lines and a stack of suspended library activations

An API line runs its program until it returns (`= code`) or suspends at a user callback (`INVOKE`);
lines arriving while the stack is non-empty are the callback's body (re-entrant calls); `ret b`
resumes the innermost suspended activation.
-/
namespace Lm.Core

inductive Op
  | ctxReg (persist : Bool)
  | ctxDereg | finalize | dispatch | loop | quit (code : Nat) | ctxLen | setTick (ns : Nat)
  | reg (handle : String) (name : String) (slot : Nat) (flags : ModFlags) (hooks : Hooks)
  | unref (m : ModId)          -- the user drops the extra reference it holds on the module (m_mod_unref)
  | dereg (m : ModId) | start (m : ModId) | pause (m : ModId) | resume (m : ModId) | stop (m : ModId)
  | become (m : ModId) (h : Nat) | unbecome (m : ModId)
  | stash (m : ModId) (idx : Nat) | unstash (m : ModId) (n : Nat)
  | batchSize (m : ModId) (n : Nat) | batchTimeout (m : ModId) (ns : Nat)
  | tokenBucket (m : ModId) (rate burst : Nat)
  | tell (m r : ModId) (payload : Nat) (af : Bool)
  | publish (m : ModId) (topic : Option String) (payload : Nat) (af : Bool)
  | pill (m r : ModId)
  | burst (m r : ModId) (payload : Nat) (af : Bool) (count : Nat)
  | subscribe (m : ModId) (topic : String) (slot : Nat) (prio : Option Prio) (prioBits : Nat) (oneshot : Bool) (userptr : Nat)
  | unsubscribe (m : ModId) (topic : String)
  | regSrc (m : ModId) (paramOk : Bool) (src : Src) (prioBits : Nat)
  | deregSrc (m : ModId) (paramOk : Bool) (kind : SrcKind) (key : Nat)
  | srcLen (m : ModId)
  | errno (e : Nat)
  | ret (b : Bool)
  | foreign (hasCtx : Bool) (op : Op)   -- `op` issued by another thread (holding another context, or none)
  | xtell (m : ModId) (name : String) (pill : Bool)  -- tell / poison pill addressed to a RUNNING module `name` of another thread's context

structure Frame where
  k : Bool → Prog Int
  evts : List Evt
  anchor : St      -- ghost: the state in which the suspended program was started
  susp : St        -- ghost: the state in which it suspended

structure Cfg where
  st : St := {}
  stack : List Frame := []

/-- run a program until it returns or suspends -/
def exec (c : Cfg) (anchor : St) (p : Prog Int) : Cfg :=
  match runP p c.st with
  | (s, .inl code) => { c with st := s.emit (.ret code) }
  | (s, .inr (cb, m, e, k)) =>
    { st := s.emit (.invoke cb m e), stack := { k := k, evts := e, anchor := anchor, susp := s } :: c.stack }

/-- the program of an API line -/
def apiProg (c : Cfg) : Op → Prog Int
  | .ctxReg p => apiCtxRegister p
  | .ctxDereg => ctxDeregisterP
  | .finalize => apiFinalize
  | .dispatch => apiDispatch
  | .loop => apiLoop
  | .quit code => apiQuit code
  | .ctxLen => apiCtxLen
  | .setTick ns => apiSetTick ns
  | .reg h name slot flags hooks => do
    let r ← apiRegister name slot flags hooks
    modify fun s => if r == 0 then { s with handles := (h, s.mods.length - 1) :: s.handles } else s
    pure r
  | .dereg m => do
    let r ← modDeregisterP m
    -- ghost: a successful call consumed the user's reference
    modify fun s => if r == 0 then { s with released := m :: s.released } else s
    pure r
  | .unref m => do
    modify fun s => { s with unrefd := m :: s.unrefd }
    pure 0
  | .start m => apiStart m
  | .pause m => apiPause m
  | .resume m => apiResume m
  | .stop m => apiStop m
  | .become m h => apiBecome m h
  | .unbecome m => apiUnbecome m
  | .stash m idx =>
    -- the i-th event of the innermost handler invocation in progress
    apiStash m (match c.stack.find? (fun f => !f.evts.isEmpty) with | some f => f.evts[idx]? | none => none)
  | .unstash m n => apiUnstash m n
  | .batchSize m n => apiBatchSize m n
  | .batchTimeout m ns => apiBatchTimeout m ns
  | .tokenBucket m r b => apiTokenBucket m r b
  | .tell m r p af => apiTell m r p af
  | .publish m t p af => apiPublish m t p af
  | .pill m r => apiPill m r
  | .burst m r p af n => burstP m r af n p 0
  | .subscribe m t sl p pb os u => apiSubscribe m t sl p pb os u
  | .unsubscribe m t => apiUnsubscribe m t
  | .regSrc m ok x pb => apiRegSrc m ok x pb
  | .deregSrc m ok k key => apiDeregSrc m ok k key
  | .srcLen m => apiSrcLen m
  | .errno _ => pure 0
  | .ret _ => pure 0
  | .foreign _ _ => pure 0
  | .xtell _ _ _ => pure 0

/-- what a thread that is not the owner of this context sees when it is handed one of its modules: the same
objects, but `m_ctx()` yields the caller's own context (a different object, `hasCtx`) or nothing -/
def foreignView (s : St) (hasCtx : Bool) : St :=
  { s with ctx := if hasCtx then some { id := s.nextCtx } else none }

/-- a call made from a foreign thread: its return code goes to the trace; if the program changed anything the owner
could observe, or reached a callback, that is recorded (C14 proves it never happens for module operations; the
correspondence compares the owner's state dump before and after on the real library) -/
def foreignStep (c : Cfg) (hc : Bool) (op : Op) : Cfg :=
  let view := foreignView c.st hc
  match runP (apiProg c op) view with
  | (s', .inl code) =>
    let same := s'.mods == view.mods && s'.srcs == view.srcs && s'.holders == view.holders && s'.out == view.out
    { c with st := (if same then c.st else c.st.emit (.note "FOREIGN-CALL-HAD-AN-EFFECT")).emit (.ret code) }
  | (_, .inr _) => { c with st := (c.st.emit (.note "FOREIGN-CALL-RAN-A-CALLBACK")).emit (.ret 0) }

/-- a module of another thread's context, as this thread sees it when handed its pointer: a RUNNING module object
whose `ctx` is a different context object -/
def alienMod (s : St) (name : String) : Mod :=
  { name := name, slot := 0, ctxId := s.nextCtx, state := .running, inCtx := false, pipe := some [] }

/-- `m_mod_ps_tell(m, alien, …)` / `m_mod_ps_poisonpill(m, alien)`: the real programs run on the state extended by
the alien module object; whatever they return goes to the trace, any effect on the alien or on anybody else is recorded -/
def xtellStep (c : Cfg) (m : ModId) (name : String) (pill : Bool) : Cfg :=
  let r := c.st.mods.length
  let view : St := { c.st with mods := c.st.mods ++ [alienMod c.st name] }
  match runP (if pill then apiPill m r else apiTell m r 0 false) view with
  | (s', .inl code) =>
    let same := s'.mods == view.mods && s'.srcs == view.srcs && s'.holders == view.holders && s'.out == view.out
    { c with st := (if same then c.st else c.st.emit (.note "CROSS-CONTEXT-SEND-HAD-AN-EFFECT")).emit (.ret code) }
  | (_, .inr _) => { c with st := (c.st.emit (.note "CROSS-CONTEXT-SEND-RAN-A-CALLBACK")).emit (.ret 0) }

def step (c : Cfg) : Op → Cfg
  | .ret b =>
    match c.stack with
    | [] => c                                   -- a `ret` at top level is ignored
    | f :: rest => exec { c with stack := rest } f.anchor (f.k b)
  | .errno e => { c with st := { c.st with errno := e } }
  | .foreign hc op => foreignStep c hc op
  | .xtell m name pill => xtellStep c m name pill
  | op => exec c c.st (apiProg c op)

def run (c : Cfg) (ops : List Op) : Cfg := ops.foldl step c

end Lm.Core
