import Lm.Generated.Mem
import Lm.Mem
import Lm.Inv.Mem
import Lm.Props.C10
