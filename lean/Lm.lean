import Lm.Generated.Mem
import Lm.Mem
import Lm.Inv.Mem
import Lm.Props.C10
import Lm.Generated.Map
import Lm.Struct.Map
import Lm.Struct.MapGen
import Lm.Props.C05
