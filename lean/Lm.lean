import Lm.Generated.Mem
import Lm.Mem
import Lm.Inv.Mem
import Lm.Props.C10
import Lm.Struct.Chain
import Lm.Struct.Queue
import Lm.Struct.Stack
import Lm.Struct.ListM
