import Lm.Generated.Mem
import Lm.Mem
import Lm.Inv.Mem
import Lm.Props.C10
import Lm.Thpool
import Lm.Props.C06
