import Lm.Struct.Queue
import Lm.Struct.Stack
import Lm.Struct.ListM
import Driver.Util
/-! Line-protocol driver for the queue / stack / list models (property C12).
One container per script; the `new <kind> <dtor> <cmp>` line selects the model. -/
namespace Driver.Chain
open Lm.Struct

inductive Kind | none | queue | stack | list
  deriving DecidableEq

/-- the comparator the harness hands to `m_list_new`: `a % 8 - (b / 8) % 8` (data first, element second; not symmetric) -/
def cmpEq (a b : Val) : Bool := a % 8 == (b / 8) % 8

def fmtVal (v : Val) : String := if v == 0 then "nil" else toString v

def fmtRet : Ret → String
  | .int i => s!"= {i}"
  | .ptr v => s!"= {fmtVal v}"
  | .handle true => "= itr"
  | .handle false => "= nil"

def fmtSeq (s : St) : String :=
  let vs := match s.obj with | some q => vals q.chain | none => []
  "seq" ++ String.join (vs.map fun v => s!" {v}") ++ s!" ; len {cLen s.obj}"

/-- events produced by one op: destructor / callback lines come before the result, `cur` after it -/
def fmtOut (old : St) (r : St × Ret) : List String :=
  if r.1.fault then ["FAULT"] else
  let evs := r.1.log.drop old.log.length
  let pre := evs.filterMap fun
    | .dtor v => some s!"dtor {v}"
    | .cb vs => some ("cb" ++ String.join (vs.map fun v => s!" {v}"))
    | .cur _ => none
  let post := evs.filterMap fun
    | .cur (some nd) => some s!"cur {fmtVal nd.val}"
    | .cur none => some "cur nil"
    | _ => none
  pre ++ [fmtRet r.2] ++ post ++ [fmtSeq r.1]

def parseQ : List String → Option Queue.Op
  | ["enq", v] => v.toNat?.map .enq
  | ["deq"] => some .deq
  | ["peek"] => some .peek
  | ["rm"] => some .rm
  | ["len"] => some .len
  | ["clear"] => some .clear
  | ["free"] => some .free
  | ["iterate"] => some (.iterate none)
  | ["iterate", k] => k.toNat?.map fun k => .iterate (some k)
  | ["it", "new"] => some .itNew
  | ["it", "next"] => some .itNext
  | ["it", "get"] => some .itGet
  | ["it", "set", v] => v.toNat?.map .itSet
  | ["it", "rm"] => some .itRm
  | _ => none

def parseS : List String → Option Stack.Op
  | ["push", v] => v.toNat?.map .push
  | ["pop"] => some .pop
  | ["peek"] => some .peek
  | ["rm"] => some .rm
  | ["len"] => some .len
  | ["clear"] => some .clear
  | ["free"] => some .free
  | ["iterate"] => some (.iterate none)
  | ["iterate", k] => k.toNat?.map fun k => .iterate (some k)
  | ["it", "new"] => some .itNew
  | ["it", "next"] => some .itNext
  | ["it", "get"] => some .itGet
  | ["it", "set", v] => v.toNat?.map .itSet
  | ["it", "rm"] => some .itRm
  | _ => none

def parseL : List String → Option ListM.Op
  | ["ins", v] => v.toNat?.map .ins
  | ["rm", v] => v.toNat?.map .rm
  | ["find", v] => v.toNat?.map .find
  | ["len"] => some .len
  | ["clear"] => some .clear
  | ["free"] => some .free
  | ["iterate"] => some (.iterate none)
  | ["iterate", k] => k.toNat?.map fun k => .iterate (some k)
  | ["it", "new"] => some .itNew
  | ["it", "next"] => some .itNext
  | ["it", "get"] => some .itGet
  | ["it", "set", v] => v.toNat?.map .itSet
  | ["it", "rm"] => some .itRm
  | ["it", "ins", v] => v.toNat?.map .itIns
  | _ => none

/-- one script line → output lines -/
def stepLine (k : Kind) (s : St) (line : String) : Kind × St × List String :=
  if s.fault then (k, s, []) else
  let ws := Driver.words line
  if ws.isEmpty then (k, s, []) else
  match k, ws with
  | .none, ["new", kind, d, c] =>
    match d.toNat?, c.toNat? with
    | some d, some c =>
      let mk (k' : Kind) (s' : St) := (k', s', ["= ok", fmtSeq s'])
      if kind == "queue" then mk .queue (Queue.new (d != 0))
      else if kind == "stack" then mk .stack (Stack.new (d != 0))
      else if kind == "list" then mk .list (ListM.new (d != 0) (c != 0))
      else (k, s, ["bad-op"])
    | _, _ => (k, s, ["bad-op"])
  | .queue, ws =>
    match parseQ ws with
    | some op => let r := Queue.step s op; (k, r.1, fmtOut s r)
    | none => (k, s, ["bad-op"])
  | .stack, ws =>
    match parseS ws with
    | some op => let r := Stack.step s op; (k, r.1, fmtOut s r)
    | none => (k, s, ["bad-op"])
  | .list, ws =>
    match parseL ws with
    | some op => let r := ListM.step cmpEq s op; (k, r.1, fmtOut s r)
    | none => (k, s, ["bad-op"])
  | .none, _ => (k, s, ["bad-op"])

def run : IO Unit := do
  let stdin ← IO.getStdin
  let stdout ← IO.getStdout
  let lines ← Driver.readLines stdin #[]
  let mut s : St := {}
  let mut k : Kind := .none
  for line in lines do
    if line.startsWith "# " then
      s := {}
      k := .none
      stdout.putStrLn s!"## {(line.drop 2).toString}"
    else
      let (k', s', out) := stepLine k s line
      s := s'
      k := k'
      for o in out do stdout.putStrLn o
  stdout.flush

end Driver.Chain
