import Lm.Core.Machine
import Driver.Util
/-! Line-protocol driver for the core machine (`lmdriver core`). -/
namespace Driver.Core
open Lm.Core

/-- `hashmap_hash_string` of map.c (djb2 + murmur3 finalizer on a 64-bit size_t), for table order -/
def hashStr (s : String) : UInt64 := Id.run do
  let mut h : UInt64 := 5381
  for c in s.toList do
    h := (h <<< 5) + h + (UInt64.ofNat c.toNat)
  h := h ^^^ (h >>> 16)
  h := h * 0x85ebca6b
  h := h ^^^ (h >>> 13)
  h := h * 0xc2b2ae35
  h := h ^^^ (h >>> 16)
  return h

def slotOf (s : String) : Nat := (hashStr s).toNat % 256

def handleOf (s : St) (m : ModId) : String :=
  match s.handles.find? (fun p => p.2 == m) with
  | some p => p.1
  | none => s!"?{m}"

def stLetter : MState → String
  | .idle => "I" | .running => "R" | .paused => "P" | .stopped => "S" | .zombie => "Z"

def fmtEvt (s : St) (e : Evt) : String :=
  match e.kind, e.msg with
  | .ps, some m =>
    let t := m.topic.getD "-"
    let snd := match m.sender with | some x => handleOf s x | none => "-"
    s!"ps({t},{snd},p{m.payload},{if m.sys then 1 else 0},u{e.userdata})"
  | .fd, _ => s!"fd(f{e.key},u{e.userdata})"
  | .tmr, _ => s!"tmr({e.key},u{e.userdata})"
  | .task, _ => s!"task({e.key},{e.userdata + 100},u{e.userdata})"     -- the harness's task function returns its argument + 100
  | k, _ => s!"{repr k}({e.key},u{e.userdata})"

def fmtOut (s : St) : Out → String
  | .ret code => s!"= {code}"
  | .invoke cb m evts =>
    let st := match s.mods[m]? with | some md => stLetter md.state | none => "?"
    s!"INVOKE {cb.name} {handleOf s m}:{st}" ++ String.join (evts.map fun e => " " ++ fmtEvt s e)
  | .free p => s!"free p{p}"
  | .close (.fd k) => if k ≥ 100 then s!"close dup:{k - 100}" else s!"close fd:{k}"
  | .close (.dup k) => s!"close dup:{k % 100}"
  | .close .pipeR => "close pipe-r"
  | .close .pipeW => "close pipe-w"
  | .note t => t

def dump (s : St) : String :=
  let c := match s.ctx with
    | none => "ctx=none"
    | some c => s!"ctx={if c.state == .looping then "loop" else "idle"}{if c.quit then ",q" else ""}{if c.finalized then ",fin" else ""} run={c.running}"
  let mods := s.handles.reverse.map fun (h, m) =>
    match s.mods[m]? with
    | none => s!" {h}:?"
    | some md =>
      if md.state == .zombie then s!" {h}:Z"
      else
        let nsrc := md.srcs.length
        let bl := if md.batchInf then "inf" else toString md.batchLen
        let tk := match md.tb with | some tb => toString tb.tokens | none => "-"
        s!" {h}:{stLetter md.state}:p{if md.pipe.isSome then 1 else 0}:s{nsrc}:u{md.subs.length}:b{bl}/{md.batch.length}:st{md.stash.length}:r{md.recvs.length}:tk{tk}"
  "S " ++ c ++ " |" ++ String.join mods

def parseFlags (f : String) : ModFlags :=
  { allowReplace := f.contains 'R', persist := f.contains 'P', denyCtx := f.contains 'C',
    denyPub := f.contains 'B', denySub := f.contains 'S' }

def parseHooks (f : String) : Hooks := { start := f.contains 's', stop := f.contains 't', eval := f.contains 'e' }

def idNat (pfx : Char) (t : String) : Option Nat :=
  if t.length ≥ 2 && t.front == pfx then (t.drop 1).toString.toNat? else none

def prioOf (f : String) : Option Prio × Nat :=
  let bits := (if f.contains 'l' then 1 else 0) + (if f.contains 'n' then 1 else 0) + (if f.contains 'h' then 1 else 0)
  let p := if f.contains 'h' then some Prio.high else if f.contains 'l' then some Prio.low else if f.contains 'n' then some Prio.norm else none
  (p, bits)

/-- parse one script line into an `Op` (none: environment-only line; error string: bad-op / bad-handle) -/
def parse (s : St) (line : String) : Except String (Option Op) :=
  let h? (t : String) : Except String ModId := match s.handles.lookup t with
    | some m => .ok m | none => .error "bad-handle"
  match Driver.words line with
  | [] => .ok none
  | ["ctx_reg", p] => .ok (some (.ctxReg (p == "1")))
  | ["ctx_dereg"] => .ok (some .ctxDereg)
  | ["finalize"] => .ok (some .finalize)
  | ["dispatch"] => .ok (some .dispatch)
  | ["loop"] => .ok (some .loop)
  | ["quit", c] => match c.toNat? with | some c => .ok (some (.quit c)) | none => .error "bad-op"
  | ["ctx_len"] => .ok (some .ctxLen)
  | ["tick", n] => match n.toNat? with | some n => .ok (some (.setTick n)) | none => .error "bad-op"
  | ["reg", h, name, fl, hk] => .ok (some (.reg h name (slotOf name) (parseFlags fl) (parseHooks hk)))
  | ["dereg", h] => do let m ← h? h; pure (some (.dereg m))
  | ["start", h] => do let m ← h? h; pure (some (.start m))
  | ["pause", h] => do let m ← h? h; pure (some (.pause m))
  | ["resume", h] => do let m ← h? h; pure (some (.resume m))
  | ["stop", h] => do let m ← h? h; pure (some (.stop m))
  | ["become", h, k] => do let m ← h? h; match k.toNat? with | some k => pure (some (.become m k)) | none => .error "bad-op"
  | ["unbecome", h] => do let m ← h? h; pure (some (.unbecome m))
  | ["stash", h, i] => do let m ← h? h; match i.toNat? with | some i => pure (some (.stash m i)) | none => .error "bad-op"
  | ["unstash", h, n] => do let m ← h? h; match n.toNat? with | some n => pure (some (.unstash m n)) | none => .error "bad-op"
  | ["batch_size", h, n] => do let m ← h? h; match n.toNat? with | some n => pure (some (.batchSize m n)) | none => .error "bad-op"
  | ["batch_to", h, n] => do let m ← h? h; match n.toNat? with | some n => pure (some (.batchTimeout m n)) | none => .error "bad-op"
  | ["tb", h, r, b] => do let m ← h? h; match r.toNat?, b.toNat? with | some r, some b => pure (some (.tokenBucket m r b)) | _, _ => .error "bad-op"
  | ["tell", h, r, p, af] => do
    let m ← h? h; let r ← h? r
    match idNat 'p' p with | some p => pure (some (.tell m r p (af == "1"))) | none => .error "bad-op"
  | ["pub", h, t, p, af] => do
    let m ← h? h
    match idNat 'p' p with | some p => pure (some (.publish m (if t == "-" then none else some t) p (af == "1"))) | none => .error "bad-op"
  | ["pill", h, r] => do let m ← h? h; let r ← h? r; pure (some (.pill m r))
  | ["burst", h, r, p, af, n] => do
    let m ← h? h; let r ← h? r
    match idNat 'p' p, n.toNat? with
    | some p, some n => if p + n ≥ 16384 then .error "bad-op" else pure (some (.burst m r p (af == "1") n))
    | _, _ => .error "bad-op"
  | ["sub", h, t, pr, os, u] => do
    let m ← h? h
    let (p, bits) := prioOf pr
    match idNat 'u' u with | some u => pure (some (.subscribe m t (slotOf t) p bits (os == "1") u)) | none => .error "bad-op"
  | ["unsub", h, t] => do let m ← h? h; pure (some (.unsubscribe m t))
  | ["reg_fd", h, f, fl, u] => do
    let m ← h? h
    match idNat 'f' f, idNat 'u' u with
    | some k, some u =>
      let (p, bits) := prioOf fl
      -- fd sources accept no priority or HIGH only (parameter guard); the model forces HIGH (`forceHigh`)
      let ok := p.isNone || (bits == 1 && p == some .high)
      -- the regular files of the pool are only offered to RUNNING modules (both sides refuse the line otherwise)
      if k ≥ 6 && !stateIs s m .running then .error "bad-op" else
      pure (some (.regSrc m ok { kind := .fd, owner := m, key := k, prio := p.getD .norm, oneshot := fl.contains 'o',
                                 autoclose := fl.contains 'a', dup := fl.contains 'd', userptr := u } bits))
    | _, _ => .error "bad-op"
  | ["dereg_fd", h, f] => do
    let m ← h? h
    match idNat 'f' f with | some k => pure (some (.deregSrc m true .fd k)) | none => .error "bad-op"
  | ["reg_tmr", h, ns, fl, u] => do
    let m ← h? h
    match ns.toNat?, idNat 'u' u with
    | some ns, some u =>
      let (p, bits) := prioOf fl
      pure (some (.regSrc m (ns > 0) { kind := .tmr, owner := m, key := ns, prio := p.getD .norm, oneshot := fl.contains 'o',
                                       userptr := u } bits))
    | _, _ => .error "bad-op"
  | ["dereg_tmr", h, ns] => do
    let m ← h? h
    match ns.toNat? with | some ns => pure (some (.deregSrc m (ns > 0) .tmr ns)) | none => .error "bad-op"
  | ["reg_task", h, n, fl, u] => do
    let m ← h? h
    match n.toNat?, idNat 'u' u with
    | some n, some u =>
      let (p, bits) := prioOf fl
      -- (the function pointer is never NULL here; the model forces the one-shot flag)
      pure (some (.regSrc m true { kind := .task, owner := m, key := n, prio := p.getD .norm, oneshot := false, userptr := u } bits))
    | _, _ => .error "bad-op"
  | ["dereg_task", h, n] => do
    let m ← h? h
    match n.toNat? with | some n => pure (some (.deregSrc m true .task n)) | none => .error "bad-op"
  | ["reg_sgn", h, n, fl, u] => do
    let m ← h? h
    match n.toNat?, idNat 'u' u with
    | some n, some u =>
      let (p, bits) := prioOf fl
      pure (some (.regSrc m (n > 0) { kind := .sgn, owner := m, key := n, prio := p.getD .norm, oneshot := fl.contains 'o', userptr := u } bits))
    | _, _ => .error "bad-op"
  | ["dereg_sgn", h, n] => do
    let m ← h? h
    match n.toNat? with | some n => pure (some (.deregSrc m (n > 0) .sgn n)) | none => .error "bad-op"
  | ["reg_pid", h, i, fl, u] => do
    let m ← h? h
    match i.toNat?, idNat 'u' u with
    | some i, some u =>
      let (p, bits) := prioOf fl
      pure (some (.regSrc m (i ≥ 1 && i ≤ 3) { kind := .pid, owner := m, key := i, prio := p.getD .norm, oneshot := fl.contains 'o', userptr := u } bits))
    | _, _ => .error "bad-op"
  | ["dereg_pid", h, i] => do
    let m ← h? h
    match i.toNat? with | some i => pure (some (.deregSrc m (i ≥ 1 && i ≤ 3) .pid i)) | none => .error "bad-op"
  | ["reg_path", h, i, fl, u] => do
    let m ← h? h
    match i.toNat?, idNat 'u' u with
    | some i, some u =>
      let (p, bits) := prioOf fl
      pure (some (.regSrc m (i ≥ 1 && i ≤ 4) { kind := .path, owner := m, key := i, prio := p.getD .norm, oneshot := fl.contains 'o', userptr := u } bits))
    | _, _ => .error "bad-op"
  | ["dereg_path", h, i] => do
    let m ← h? h
    match i.toNat? with | some i => pure (some (.deregSrc m (i ≥ 1 && i ≤ 4) .path i)) | none => .error "bad-op"
  | ["reg_thr", h, a, b, fl, u] => do
    let m ← h? h
    match a.toNat?, b.toNat?, idNat 'u' u with
    | some a, some b, some u =>
      let (p, bits) := prioOf fl
      pure (some (.regSrc m (a > 0 || b > 0) { kind := .thresh, owner := m, key := a * 16 + b, prio := p.getD .norm, oneshot := fl.contains 'o', userptr := u } bits))
    | _, _, _ => .error "bad-op"
  | ["dereg_thr", h, a, b] => do
    let m ← h? h
    match a.toNat?, b.toNat? with | some a, some b => pure (some (.deregSrc m (a > 0 || b > 0) .thresh (a * 16 + b))) | _, _ => .error "bad-op"
  | ["srclen", h] => do let m ← h? h; pure (some (.srcLen m))
  | ["unref", h] => do let m ← h? h; pure (some (.unref m))
  | ["make_ready", _] => .ok none
  | ["drain", _] => .ok none
  | ["errno", e] => match e.toNat? with | some e => .ok (some (.errno e)) | none => .error "bad-op"
  | ["ret", b] => .ok (some (.ret (b != "0")))
  | ["xtell", h, name, pl] => do let m ← h? h; pure (some (.xtell m name (pl != "0")))
  | _ => .error "bad-op"

/-- `foreign ctx|none <module operation…>`: the operation is issued by another thread -/
def parseLine (s : St) (line : String) : Except String (Option Op) :=
  match Driver.words line with
  | "foreign" :: k :: rest =>
    if rest.isEmpty || rest.head? == some "foreign" || rest.head? == some "xtell" || rest.head? == some "ret"
        || rest.head? == some "reg" || rest.length < 2 then .error "bad-op"
    else match parse s (" ".intercalate rest) with
      | .error e => .error e
      | .ok none => .error "bad-op"
      | .ok (some op) => .ok (some (.foreign (k == "ctx") op))
  | _ => parse s line

def parseTok (tok : String) : BatchTok :=
  match tok.splitOn ":" with
  | ["tick"] => .tick
  | ["!quit"] => .forceQuit
  | ["ps", h] => .ps h
  | [k, h, key] =>
    match key.toNat? with
    | some key =>
      if k == "fd" then .src .fd h key .user else if k == "task" then .src .task h key .user else if k == "sgn" then .src .sgn h key .user
      else if k == "pid" then .src .pid h key .user else if k == "path" then .src .path h key .user else .bad tok
    | none => .bad tok
  | ["tmr", h, key, r] =>
    match key.toNat? with
    | some key => .src .tmr h key (if r == "b" then .batchTimer else if r == "t" then .tbTimer else .user)
    | none => .bad tok
  | _ => .bad tok

/-- process one line; returns new configuration and output lines -/
def stepLine (c : Cfg) (line : String) : Cfg × List String :=
  if line.startsWith "@batch" then
    ({ c with st := { c.st with batches := c.st.batches ++ [((Driver.words line).drop 1).map parseTok] } }, [])
  else if line.startsWith "@match " then
    match Driver.words line with
    | [_, p, t] => ({ c with st := { c.st with rx := (p, t) :: c.st.rx } }, [])
    | _ => (c, ["bad-op"])
  else if line == "leakcheck" then
    -- inside a callback the line ends the body (the check itself is the harness's business)
    if c.stack.isEmpty then (c, []) else
      let c' := step c (.ret true)
      let lines := c'.st.out.flatMap fun o => match o with | .ret _ => [fmtOut c'.st o, dump c'.st] | _ => [fmtOut c'.st o]
      ({ c' with st := { c'.st with out := [] } }, lines)
  else
  match parseLine c.st line with
  | .error e => (c, [e])
  | .ok none => (c, [])
  | .ok (some op) =>
    let n0 := c.st.out.length
    let c' := step c op
    let outs := c'.st.out.drop n0
    let lines := outs.flatMap fun o =>
      match o with
      | .ret _ => [fmtOut c'.st o, dump c'.st]
      | _ => [fmtOut c'.st o]
    -- keep the output log short
    ({ c' with st := { c'.st with out := [] } }, lines)

/-- at the end of a script: every still-suspended callback returns true -/
partial def drain (c : Cfg) (acc : List String) : Cfg × List String :=
  match c.stack with
  | [] => (c, acc)
  | _ => let (c', o) := stepLine c "ret 1"; drain c' (acc ++ o)

/-- end of a script: pending callbacks return; then module objects nobody references any more are destroyed
(`leak`: the script ended with the harness's leak check, which drops every remaining user reference once the
context is gone) -/
def finish (c : Cfg) (leak : Bool) : List String :=
  let (c', o) := drain c []
  let s := { c'.st with out := [] }
  let s' := reapZombies s (leak && s.ctx.isNone)
  o ++ s'.out.map (fmtOut s')

def run : IO Unit := do
  let stdin ← IO.getStdin
  let stdout ← IO.getStdout
  let lines ← Driver.readLines stdin #[]
  let mut c : Cfg := {}
  let mut started := false
  let mut leak := false
  for line in lines do
    if line.startsWith "# " then
      if started then
        for x in finish c leak do stdout.putStrLn x
      c := {}
      leak := false
      started := true
      stdout.putStrLn s!"## {(line.drop 2).toString}"
    else
      if line == "leakcheck" then leak := true
      let (c', out) := stepLine c line
      c := c'
      for o in out do stdout.putStrLn o
  if started then
    for x in finish c leak do stdout.putStrLn x
  stdout.flush

end Driver.Core
