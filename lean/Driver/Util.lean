/-! Shared helpers for the line-protocol drivers (core Lean only, so the executable links). -/
namespace Driver

def words (line : String) : List String :=
  (line.trimAscii.toString.splitOn " ").filter (· ≠ "")

/-- Read all of stdin, split into lines. -/
partial def readLines (h : IO.FS.Stream) (acc : Array String) : IO (Array String) := do
  let line ← h.getLine
  if line.isEmpty then return acc
  readLines h (acc.push (line.trimAscii.toString))

def optNat? (s : String) : Option (Option Nat) :=
  if s == "-" then some none else s.toNat?.map some

end Driver
