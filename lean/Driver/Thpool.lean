import Lm.Thpool
import Driver.Util
/-! Trace acceptance driver for the thread-pool transition system (property C06).

Input per script (`# <id>`): the harness output of one schedule — `cfg threads=N lazy=B detached=B`,
then one event per line (`T<i> <event> …`), then `end …`.  Output: `accepted` or
`rejected at <k>: <why>`, followed (when accepted) by the verdicts of the property monitors
evaluated on the final model state. -/
namespace Driver.Thpool
open Lm.Thpool

def tid? (s : String) : Option Nat :=
  if s.startsWith "T" then (s.drop 1).toString.toNat? else none

def kv? (s key : String) : Option Nat :=
  if s.startsWith (key ++ "=") then (s.drop (key.length + 1)).toString.toNat? else none

def int? (s : String) : Option Int :=
  if s.startsWith "-" then (s.drop 1).toString.toNat?.map (fun n => - (Int.ofNat n)) else s.toNat?.map Int.ofNat

def natList? : List String → Option (List Nat)
  | [] => some []
  | x :: xs => match x.toNat?, natList? xs with
    | some n, some ns => some (n :: ns)
    | _, _ => none

/-- one event line → the labels it stands for -/
def labels? (w : List String) : Option (List Label) :=
  match w with
  | t :: rest =>
    match tid? t with
    | none => none
    | some t =>
      let one (a : Act) : Option (List Label) := some [⟨t, a⟩]
      match rest with
      | ["lock"] => one .lock
      | ["unlock"] => one .unlock
      | ["wait"] => one .wait
      | ["wake", "spurious"] => some [⟨t, .spurious⟩, ⟨t, .reacq⟩]
      | ["wake", "signal"] => one .reacq
      | ["wake", "broadcast"] => one .reacq
      | ["signal", "-"] => one (.signal none)
      | ["signal", j] => (tid? j).bind fun j => one (.signal (some j))
      | ["broadcast"] => one .broadcast
      | ["create", j] => (tid? j).bind fun j => one (.create j)
      | ["create_fail"] => one .createFail
      | ["join", j] => (tid? j).bind fun j => one (.join j)
      | ["exit"] => one .exit
      | ["qlen", n] => n.toNat?.bind fun n => one (.qlen n)
      | ["tlen", n] => n.toNat?.bind fun n => one (.tlen n)
      | ["enq", k] => k.toNat?.bind fun k => one (.enq k)
      | ["deq", k] => k.toNat?.bind fun k => one (.deq k)
      | ["tins", j] => (tid? j).bind fun j => one (.tins j)
      | ["tfree"] => one .tfree
      | "qfree" :: ks => (natList? ks).bind fun ks => one (.qfree ks)
      | ["task_start", k, a] => k.toNat?.bind fun k => a.toNat?.bind fun a => one (.taskStart k a)
      | ["task_end", k] => k.toNat?.bind fun k => one (.taskEnd k)
      | ["add_call", k, a] => k.toNat?.bind fun k => a.toNat?.bind fun a => one (.addCall k a)
      | ["add_ret", c] => (int? c).bind fun c => one (.addRet c)
      | ["new_ret", b] => b.toNat?.bind fun b => one (.newRet (b != 0))
      | ["free_call", b] => b.toNat?.bind fun b => one (.freeCall (b != 0))
      | ["free_ret", c] => if c == "0" then one .freeRet else none
      | ["destroy", "cond"] => one .destroyCond
      | ["destroy", "mutex"] => one .destroyMutex
      | ["free", "pool"] => one .freePool
      | _ => none
  | [] => none

structure Acc where
  st : Option State := none          -- none: no cfg line yet
  nev : Nat := 0                     -- events consumed
  verdict : Option String := none    -- set at the first rejection
  tids : List Nat := [0]
  tasks : List Nat := []
  preOk : Bool := true
  ended : Bool := false
  labels : List Label := []          -- everything applied so far, internal steps included (newest first)

def pcName (p : Pc) : String := (reprStr p).replace "Lm.Thpool.Pc." ""

/-- `runTaus`, also counting the internal steps taken -/
def runTausN (s : State) (t : Tid) : Nat → State × Nat
  | 0 => (s, 0)
  | fuel + 1 => if isTauPc s t then
      match step s ⟨t, .tau⟩ with
      | some s' => let (s'', n) := runTausN s' t fuel; (s'', n + 1)
      | none => (s, 0)
    else (s, 0)

/-- Apply the labels of one event of thread `t`.  The plain memory accesses a thread makes between two
library calls are located by the `T<i> @` markers of the harness (first access to the pool object
after a scheduling point): that is where the thread's internal steps fire (`marker`).  Internal steps
still pending when the thread's next library call arrives (no access was instrumented) fire first. -/
def applyLabels (s : State) (preOk : Bool) (acc : List Label) : List Label → Except String (State × Bool × List Label)
  | [] => .ok (s, preOk, acc)
  | l :: ls =>
    let (s0, n) := runTausN s l.tid 8
    let acc := List.replicate n ⟨l.tid, .tau⟩ ++ acc
    match step s0 l with
    | some s' => applyLabels s' (preOk && pre s0 l) (l :: acc) ls
    | none => .error s!"T{l.tid} is at {pcName (s0.pc l.tid)}, lock owner {s0.lockOwner}, waiters {s0.waiters}, queue {s0.tasks}"

def marker (s : State) (acc : List Label) (t : Tid) : State × List Label :=
  let (s', n) := runTausN s t 8
  (s', List.replicate n ⟨t, .tau⟩ ++ acc)

def feed (a : Acc) (line : String) : Acc :=
  if a.verdict.isSome then a else
  let w := Driver.words line
  match w with
  | [] => a
  | "cfg" :: [th, lz, dt] =>
    match kv? th "threads", kv? lz "lazy", kv? dt "detached" with
    | some n, some l, some d => { a with st := some (init ⟨n, l != 0, d != 0⟩) }
    | _, _, _ => { a with verdict := some "bad-op (cfg)" }
  | "end" :: _ => { a with ended := true }
  | "FAULT" :: _ => { a with verdict := some s!"rejected at {a.nev}: the implementation faulted ({line})" }
  | "#" :: _ => a
  | [_, "."] => a
  | _ :: "." :: _ => a
  | [t, "@"] =>
    match a.st, tid? t with
    | some s, some t => let (s', lbs) := marker s a.labels t; { a with st := some s', labels := lbs }
    | _, _ => { a with verdict := some "bad-op (marker)" }
  | _ =>
    match a.st, labels? w with
    | none, _ => { a with verdict := some "bad-op (no cfg line)" }
    | _, none => { a with verdict := some s!"rejected at {a.nev}: not in the model's vocabulary: {line}" }
    | some s, some ls =>
      let tids := ls.foldl (fun acc l => if acc.contains l.tid then acc else l.tid :: acc) a.tids
      let tids := match ls with
        | [⟨_, .create j⟩] => if tids.contains j then tids else j :: tids
        | _ => tids
      let tasks := match ls with
        | [⟨_, .addCall k _⟩] => if a.tasks.contains k then a.tasks else k :: a.tasks
        | _ => a.tasks
      match applyLabels s a.preOk a.labels ls with
      | .ok (s', p, lbs) => { a with st := some s', nev := a.nev + 1, tids := tids, tasks := tasks, preOk := p, labels := lbs }
      | .error why => { a with verdict := some s!"rejected at {a.nev}: `{line}` is not enabled: {why}" }

def okS (b : Bool) : String := if b then "ok" else "FAIL"

def report (a : Acc) : List String :=
  match a.verdict, a.st with
  | some v, _ => [v]
  | none, none => ["rejected at 0: empty trace"]
  | none, some s =>
    let tk := a.tasks
    let execOnce := tk.all fun k => (s.task k).execCount ≤ 1 &&
      ((s.task k).started == false || (s.task k).ranWith == some (s.task k).arg)
    let bound := decide (s.workers.length ≤ s.cfg.maxThreads)
    let freed := s.pc 0 == .mDone
    let retOk := !freed || s.newFailed ||
      (if s.mode then tk.all fun k => !(s.task k).accepted || (s.task k).finished
       else tk.all fun k => (!(s.task k).started || (s.task k).finished) &&
              (!((s.task k).accepted && !(s.task k).started) || ((s.task k).discarded && (s.task k).execCount == 0)))
    let noTouch := !(s.condDestroyed || s.mutexDestroyed || s.poolFreed) ||
      a.tids.all fun t => t == 0 || s.pc t == .none || s.pc t == .sIdle || s.pc t == .wRet || s.pc t == .wDone
    ["accepted",
     s!"monitor precondition {okS a.preOk}",
     s!"monitor exec_once {okS execOnce}",
     s!"monitor workers_bound {okS bound}",
     s!"monitor free_return {okS retOk}",
     s!"monitor no_touch_after_free {okS noTouch}",
     s!"monitor quiescent {okS (!a.ended || quiescent s a.tids)}"]

def fmtAct : Act → String
  | .signal none => ".signal none"
  | .signal (some w) => s!".signal (some {w})"
  | .qfree ks => s!".qfree {ks}"
  | .addRet c => if c < 0 then s!".addRet ({c})" else s!".addRet {c}"
  | a => "." ++ ((reprStr a).replace "Lm.Thpool.Act." "")

/-- the accepted label sequence as a Lean term (used to write the `example`s of Lm.Props.C06) -/
def dump (a : Acc) : String :=
  "[" ++ ", ".intercalate (a.labels.reverse.map fun l => s!"⟨{l.tid}, {fmtAct l.act}⟩") ++ "]"

def run (dumpLabels : Bool := false) : IO Unit := do
  let stdin ← IO.getStdin
  let stdout ← IO.getStdout
  let lines ← Driver.readLines stdin #[]
  let mut a : Acc := {}
  let mut open_ := false
  for line in lines do
    if line.startsWith "# " then
      if open_ then
        for o in report a do stdout.putStrLn o
        if dumpLabels then stdout.putStrLn (dump a)
      a := {}
      open_ := true
      stdout.putStrLn s!"## {(line.drop 2).toString}"
    else
      a := feed a line
  if open_ then
    for o in report a do stdout.putStrLn o
    if dumpLabels then stdout.putStrLn (dump a)
  stdout.flush

end Driver.Thpool
