import Lm.Generated.Map
import Lm.Struct.Map
import Lm.Struct.MapGen
import Driver.Util
/-! Line-protocol driver for the map model (property C05).  Same scripts and output lines as
`harness/map_harness.c`. -/
namespace Driver.Map
open Lm.Struct.Map

def keyBytes (k : String) : List (BitVec 8) := k.toUTF8.toList.map (fun b => BitVec.ofNat 8 b.toNat)

def P : Params String := genParams keyBytes

structure DSt where
  map : Option (Map String) := none
  itr : Option Itr := none
  flags : Nat := 0
  keysLive : Int := 0          -- key blocks allocated and not yet released

def fmtEv : Ev String → String
  | .dtor v => s!"dtor {v}"
  | .kalloc k => s!"kalloc {k}"
  | .kfree k => s!"kfree {k}"

def fmtOut : Out String → String
  | .visit k v => s!"visit {k} {v}"
  | .ev e => fmtEv e
  | .rc r => s!"= {r}"

def balance (evs : List (Ev String)) : Int :=
  evs.foldl (fun a e => match e with | .kalloc _ => a + 1 | .kfree _ => a - 1 | .dtor _ => a) 0

def optVal : Option Nat → String
  | some v => s!"= {v}"
  | none => "= nil"

/-- callback programs of the `iterate` line -/
def cbOf (args : List String) : Option (Nat → String → Nat → CbAct String) :=
  match args with
  | [] => some fun _ _ _ => .cont
  | ["rm-all"] => some fun _ _ _ => .rm
  | "rm-at" :: is =>
    if is.isEmpty || is.length > 16 then none else
    match is.mapM String.toNat? with
    | some ns => some fun i _ _ => if ns.contains i then .rm else .cont
    | none => none
  | ["stop-at", i] => i.toNat?.map fun n => fun i _ _ => if i = n then .stop else .cont
  | ["err-at", i] => i.toNat?.map fun n => fun i _ _ => if i = n then .err else .cont
  | ["del-at", i, k] => i.toNat?.map fun n => fun i _ _ => if i = n then .del k else .cont
  | ["put-at", i, k, v] =>
    match i.toNat?, v.toNat? with
    | some n, some v => some fun i _ _ => if i = n then .put k v else .cont
    | _, _ => none
  | _ => none

def stepLine (s : DSt) (line : String) : DSt × List String :=
  match Driver.words line with
  | [] => (s, [])
  | ["new", f, d] =>
    match s.map, f.toNat?, d.toNat? with
    | none, some fl, some dt =>
      let m := new P (fl &&& 1 != 0) (fl &&& 2 != 0) (fl &&& 256 != 0) (dt != 0)
      ({ s with map := some m, itr := none, flags := fl }, ["= ok"])
    | _, _, _ => (s, ["bad-op"])
  | ["put", k, v] =>
    match v.toNat? with
    | none => (s, ["bad-op"])
    | some v =>
      match s.map with
      | none => (s, ["= -22"])
      | some m =>
        let r := put P m k v
        ({ s with map := some r.1, itr := none, keysLive := s.keysLive + balance r.2.1 }, r.2.1.map fmtEv ++ [s!"= {r.2.2}"])
  | ["get", k] =>
    match s.map with
    | none => (s, ["= nil"])
    | some m => (s, [optVal (get P m k)])
  | ["has", k] =>
    match s.map with
    | none => (s, ["= 0"])
    | some m => (s, [if contains P m k then "= 1" else "= 0"])
  | ["del", k] =>
    match s.map with
    | none => (s, ["= -22"])
    | some m =>
      let r := remove P m k
      ({ s with map := some r.1, itr := none, keysLive := s.keysLive + balance r.2.1 }, r.2.1.map fmtEv ++ [s!"= {r.2.2}"])
  | ["len"] =>
    match s.map with
    | none => (s, ["= -22"])
    | some m => (s, [s!"= {m.length}"])
  | ["clear"] =>
    match s.map with
    | none => (s, ["= -22"])
    | some m =>
      let r := clear P m
      ({ s with map := some r.1, itr := none, keysLive := s.keysLive + balance r.2 }, r.2.map fmtEv ++ ["= 0"])
  | ["free"] =>
    match s.map with
    | none => ({ s with itr := none }, ["= -22", s!"leak {s.keysLive} 0"])
    | some m =>
      let r := clear P m
      let kl := s.keysLive + balance r.2
      ({ s with map := none, itr := none, keysLive := kl }, r.2.map fmtEv ++ ["= 0", s!"leak {kl} 0"])
  | ["oom"] =>
    match s.map with
    | none => (s, [])
    | some m => ({ s with map := some { m with oom := true } }, [])
  | ["seq"] =>
    match s.map with
    | none => (s, ["seq"])
    | some m => (s, [(scanOrder m).foldl (fun a e => a ++ s!" {e.1}:{e.2}") "seq"])
  | "iterate" :: args =>
    match cbOf args with
    | none => (s, ["bad-op"])
    | some cb =>
      match s.map with
      | none => ({ s with itr := none }, ["= -22"])
      | some m =>
        let r := iterate P m cb
        ({ s with map := some r.1, itr := none, keysLive := s.keysLive + balance (outEvs r.2.1) },
         r.2.1.map fmtOut ++ [s!"= {r.2.2}"])
  | ["it", "new"] =>
    match s.map with
    | none => ({ s with itr := none }, ["= nil"])
    | some m =>
      let it := itrNew m
      ({ s with itr := it }, [if it.isSome then "= it" else "= nil"])
  | ["it", "next"] =>
    match s.map, s.itr with
    | some m, some it =>
      let it' := itrNext m it
      ({ s with itr := it' }, [if it'.isSome then "= 0 it" else "= 0 nil"])
    | _, _ => (s, ["= -22 nil"])
  | ["it", "get"] =>
    match s.map, s.itr with
    | some m, some it => (s, [optVal (itrGet m it)])
    | _, _ => (s, ["= nil"])
  | ["it", "key"] =>
    match s.map, s.itr with
    | some m, some it => (s, [match itrKey m it with | some k => s!"= {k}" | none => "= nil"])
    | _, _ => (s, ["= nil"])
  | ["it", "set", v] =>
    match v.toNat? with
    | none => (s, ["bad-op"])
    | some v =>
      match s.map, s.itr with
      | some m, some it =>
        let r := itrSet m it v
        ({ s with map := some r.1 }, [s!"= {r.2}"])
      | _, _ => (s, ["= -22"])
  | ["it", "rm"] =>
    match s.map, s.itr with
    | some m, some it =>
      let r := itrRemove P m it
      ({ s with map := some r.1, itr := some r.2.2.1, keysLive := s.keysLive + balance r.2.1 }, r.2.1.map fmtEv ++ [s!"= {r.2.2.2}"])
    | _, _ => (s, ["= -22"])
  | _ => (s, ["bad-op"])

def run : IO Unit := do
  let stdin ← IO.getStdin
  let stdout ← IO.getStdout
  let lines ← Driver.readLines stdin #[]
  let mut s : DSt := {}
  for line in lines do
    if line.startsWith "# " then
      s := {}
      stdout.putStrLn s!"## {(line.drop 2).toString}"
    else
      let (s', out) := stepLine s line
      s := s'
      for o in out do stdout.putStrLn o
  stdout.flush

end Driver.Map
