import Lm.Generated.Bst
import Lm.Struct.Bst
import Lm.Struct.BstCmp
import Driver.Util
/-! Line-protocol driver for the ordered-set model (property C11). -/
namespace Driver.Bst
open Lm.Struct.Bst

def fmtVals (vs : List Val) : String := String.join (vs.map fun v => s!" {v}")

def dump (s : St) : String :=
  match s.set with
  | none => "T pre: in: post: len:-1"
  | some b => s!"T pre:{fmtVals b.root.preorder} in:{fmtVals b.root.inorder} post:{fmtVals b.root.postorder} len:{b.len}"

def fmtPtr : Option Val → String
  | none => "= nil"
  | some v => s!"= {v}"

/-- canonical output lines of one op's events; `op` selects how handles are spelled -/
def fmtEvs (op : Op) (evs : List Ev) : List String :=
  let dt := evs.filterMap fun | .dtor v => some s!"dtor {v}" | _ => none
  let rets := evs.filterMap fun | .ret c => some c | _ => none
  let hs := evs.filterMap fun | .handle h => some h | _ => none
  let ps := evs.filterMap fun | .ptr p => some p | _ => none
  let sq := evs.filterMap fun | .seq vs => some vs | _ => none
  match op, rets, hs, ps, sq with
  | .new _, _, [_], _, _ => ["= ok"]
  | .free, [c], [h], _, _ => dt ++ [s!"= {c} {if h then "nonnull" else "null"}"]
  | .itNew, _, [h], _, _ => [if h then "= itr" else "= nil"]
  | .itNext, [c], [h], _, _ => [s!"= {c} {if h then "live" else "end"}"]
  | .trav _ _, [c], _, _, [vs] => ["seq" ++ fmtVals vs, s!"= {c}"]
  | _, [c], [], [], [] => dt ++ [s!"= {c}"]
  | _, [], [], [p], [] => [fmtPtr p]
  | _, _, _, _, _ => ["bad-events"]

def val? (s : String) : Option Val :=
  match s.toNat? with
  | some n => if n < 2 ^ 64 then some n else none
  | none => none

def parseOp (ws : List String) : Option Op :=
  match ws with
  | ["ins", v] => (val? v).map .ins
  | ["rm", v] => (val? v).map .rm
  | ["find", v] => (val? v).map .find
  | ["len"] => some .len
  | ["clear"] => some .clear
  | ["free"] => some .free
  | ["trav", o] => (match o with | "pre" => some Order.pre | "in" => some .inord | "post" => some .post | _ => none).map (.trav · none)
  | ["trav", o, i, c] =>
    match (match o with | "pre" => some Order.pre | "in" => some .inord | "post" => some .post | _ => none), i.toNat?, c.toInt? with
    | some o, some i, some c => some (.trav o (some (i, c)))
    | _, _, _ => none
  | ["iterate"] => some (.trav .pre none)
  | ["iterate", i, c] =>
    match i.toNat?, c.toInt? with
    | some i, some c => some (.trav .pre (some (i, c)))
    | _, _ => none
  | ["it", "new"] => some .itNew
  | ["it", "next"] => some .itNext
  | ["it", "get"] => some .itGet
  | ["it", "rm"] => some .itRm
  | _ => none

structure DSt where
  st : St := {}
  useDefault : Bool := false

def stepLine (d : DSt) (line : String) : DSt × List String :=
  if d.st.fault then (d, []) else
  match Driver.words line with
  | [] => (d, [])
  | ["new", dt, c] =>
    if (dt == "0" || dt == "1") && (c == "user" || c == "default") then
      let (s', evs) := step userCmp d.st (.new (dt == "1"))
      let d' : DSt := { st := s', useDefault := c == "default" }
      (d', fmtEvs (.new (dt == "1")) evs ++ [dump s'])
    else (d, ["bad-op"])
  | ws =>
    match parseOp ws with
    | none => (d, ["bad-op"])
    | some op =>
      let (s', evs) := step (if d.useDefault then defaultCmp else userCmp) d.st op
      let out := fmtEvs op evs
      if s'.fault then ({ d with st := s' }, out ++ ["FAULT"])
      else ({ d with st := s' }, out ++ [dump s'])

def run : IO Unit := do
  let stdin ← IO.getStdin
  let stdout ← IO.getStdout
  let lines ← Driver.readLines stdin #[]
  let mut d : DSt := {}
  for line in lines do
    if line.startsWith "# " then
      d := {}
      stdout.putStrLn s!"## {(line.drop 2).toString}"
    else
      let (d', out) := stepLine d line
      d := d'
      for o in out do stdout.putStrLn o
  stdout.flush

end Driver.Bst
