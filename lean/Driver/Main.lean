import Driver.Mem
import Driver.Core
import Driver.Bst
import Driver.Map
import Driver.Chain
import Driver.Thpool

def main (args : List String) : IO UInt32 := do
  match args with
  | ["mem"] => Driver.Mem.run; return 0
  | ["core"] => Driver.Core.run; return 0
  | ["bst"] => Driver.Bst.run; return 0
  | ["map"] => Driver.Map.run; return 0
  | ["chain"] | ["queue"] | ["stack"] | ["list"] => Driver.Chain.run; return 0
  | ["thpool"] => Driver.Thpool.run; return 0
  | ["thpool", "labels"] => Driver.Thpool.run true; return 0
  | _ => IO.eprintln "usage: lmdriver <model>"; return 2
