import Driver.Mem
import Driver.Map

def main (args : List String) : IO UInt32 := do
  match args with
  | ["mem"] => Driver.Mem.run; return 0
  | ["map"] => Driver.Map.run; return 0
  | _ => IO.eprintln "usage: lmdriver <model>"; return 2
