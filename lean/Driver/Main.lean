import Driver.Mem
import Driver.Chain

def main (args : List String) : IO UInt32 := do
  match args with
  | ["mem"] => Driver.Mem.run; return 0
  | ["chain"] | ["queue"] | ["stack"] | ["list"] => Driver.Chain.run; return 0
  | _ => IO.eprintln "usage: lmdriver <model>"; return 2
