import Driver.Mem
import Driver.Thpool

def main (args : List String) : IO UInt32 := do
  match args with
  | ["mem"] => Driver.Mem.run; return 0
  | ["thpool"] => Driver.Thpool.run; return 0
  | ["thpool", "labels"] => Driver.Thpool.run true; return 0
  | _ => IO.eprintln "usage: lmdriver <model>"; return 2
