import Lm.Generated.Mem
import Lm.Mem
import Driver.Util
/-! Line-protocol driver for the `m_mem_*` model (property C10). -/
namespace Driver.Mem
open Lm.Mem

def fmtEvs (old new : List Ev) : List String :=
  (new.drop old.length).map fun
    | .dtor i => s!"dtor {i}"
    | .free i => s!"free {i}"

/-- one script line → output lines -/
def stepLine (s : St) (line : String) : St × List String :=
  if s.fault then (s, []) else
  match Driver.words line with
  | ["new", sz, d, o] =>
    match sz.toNat?, d.toNat?, Driver.optNat? o with
    | some size, some dt, some owns =>
      let bv := BitVec.ofNat 64 size
      let (s', _) := step s (.new size (dt != 0) owns)
      (s', [s!"calloc {(Lm.Generated.Mem.allocSize bv).toNat}",
            s!"ptr%A {(Lm.Generated.Mem.dataOff bv).toNat % Lm.Generated.Mem.maxAlign}",
            s!"hdr {(Lm.Generated.Mem.dataOff bv + Lm.Generated.Mem.headerOff (Lm.Generated.Mem.shiftVal bv)).toNat}",
            s!"= b{s.heap.length}"])
    | _, _, _ => (s, ["bad-op"])
  | ["ref", i] =>
    match i.toNat? with
    | some i => let (s', _) := step s (.ref i); (s', if s'.fault then ["FAULT"] else [s!"= b{i}"])
    | none => (s, ["bad-op"])
  | [u, i] =>
    if u == "unref" || u == "unrefp" then
      match i.toNat? with
      | some i =>
        let (s', _) := step s (.unref i)
        (s', fmtEvs s.log s'.log ++ (if s'.fault then ["FAULT"] else ["= nil"]))
      | none => (s, ["bad-op"])
    else if u == "size" then
      match i.toNat? with
      | some i =>
        match step s (.size i) with
        | (s', some n) => (s', [s!"= {n}"])
        | (s', none) => (s', ["FAULT"])
      | none => (s, ["bad-op"])
    else if u == "null" then
      -- null arguments are tolerated: ref → NULL, unref → NULL, unrefp → nothing, size → 0
      if i == "ref" || i == "unref" then (s, ["= nil"])
      else if i == "unrefp" then (s, ["= void"])
      else if i == "size" then (s, ["= 0"])
      else (s, ["bad-op"])
    else (s, ["bad-op"])
  | ["end"] => (s, [s!"live {(s.heap.filter (·.live)).length}"])
  | [] => (s, [])
  | _ => (s, ["bad-op"])

def run : IO Unit := do
  let stdin ← IO.getStdin
  let stdout ← IO.getStdout
  let lines ← Driver.readLines stdin #[]
  let mut s : St := {}
  for line in lines do
    if line.startsWith "# " then
      s := {}
      stdout.putStrLn s!"## {(line.drop 2).toString}"
    else
      let (s', out) := stepLine s line
      s := s'
      for o in out do stdout.putStrLn o
  stdout.flush

end Driver.Mem
