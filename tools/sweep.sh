#!/bin/bash
# run the quick tier of the given properties at several seeds; print everything that is not an OK line
# usage: tools/sweep.sh "<seeds>" [props…]
cd "$(dirname "$0")/.."
seeds=$1; shift
props=${@:-C01 C02 C03 C04 C05 C06 C07 C08 C09 C10 C11 C12 C13 C14 C15 C16 C17 C18 C19 C20}
for s in $seeds; do for p in $props; do
  out=$(VERIF_SEED=$s python3 tools/check.py $p --tier ${TIER:-quick} 2>&1 | grep -E "^(OK|VIOLATION|#|KNOWN|INFRA)")
  if ! echo "$out" | grep -q "^OK"; then echo "seed=$s $p: $out" | cut -c1-400; if [ -d replays/$p ]; then mkdir -p /tmp/sweep_keep/$s; cp -r replays/$p /tmp/sweep_keep/$s/; fi; fi
done; done
echo SWEEP-DONE
