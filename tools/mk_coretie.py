#!/usr/bin/env python3
"""One-off helper (re-run by hand when the *model* is deliberately changed to follow a source change):
writes lean/Lm/Inst/CoreTie.lean's `expected` table from the currently generated guard lists."""
import os
V = os.path.dirname(os.path.dirname(os.path.abspath(__file__)))
src = open(os.path.join(V, 'lean/Lm/Generated/CoreGuards.lean')).read()
body = src[src.index('def guards'):src.index(']\ndef ') + 1]
body = body.replace('def guards', 'def expected')
B3 = '("mod", -22), ("!m_mod_is(mod, M_MOD_ZOMBIE)", -13), ("(mod->ctx == m_ctx())", -1)'
body = body.replace('[' + B3 + ', ', 'base3 ++ [').replace('[' + B3 + ']', 'base3')
body = body.replace(', ("(mod->tb.tokens > 0)", -11)]', '] ++ [tok]').replace(', ("(mod->tb.tokens > 0)", -11), ', '] ++ [tok] ++ [')
body = body.replace('("let c = m_ctx()", 7777), ("c", -32)', 'getCtx, ctxAssert')
out = '''import Lm.Generated.CoreGuards
import Lm.Generated.Statics
import Lm.Core.Model
/-!
# Tie A of the core machine: what the model was written against, checked against what the source says now

`Lm.Generated.CoreGuards.guards` is re-extracted from ctx.c / mod.c / ps.c / src.c / evts.c on every run (clang AST after
macro expansion).  `expected` is the guard prefix of every function as the model (`Lm.Core.Model`) transcribes it:

* `base3` = `M_MOD_ASSERT` = `modAssert` (NULL → -EINVAL, ZOMBIE → -EACCES, foreign context → -EPERM);
* a state mask `m_mod_is(mod, …)` → -EACCES = the `mask` argument of `guarded`;
* a permission flag → -EPERM = the `deny` argument of `guarded`;
* `tok` = `M_MOD_CONSUME_TOKEN` → -EAGAIN = `consumeToken`;
* `getCtx, ctxAssert` = `M_CTX_ASSERT` → -EPIPE = the `mctx s = none` branch of every context call;
* code 7777 = a statement found between two guards, 7778 = the function the entry point delegates to.

A widened mask, a dropped or reordered guard, a changed code, or an edit of one of the assert macros makes
`guards_as_modelled` false: the proof obligation breaks and the check searches for an input on which the behaviour differs.
(This file is written by tools/mk_coretie.py when the model is deliberately moved to a new source; never at check time.)
-/
namespace Lm.Inst.CoreTie
open Lm.Generated.CoreGuards

def base3 : List (String × Int) := [%s]
def tok : String × Int := ("(mod->tb.tokens > 0)", -11)
def getCtx : String × Int := ("let c = m_ctx()", 7777)
def ctxAssert : String × Int := ("c", -32)

%s

/-- the part of every guard list that concerns thread confinement (C14): handle checks, the comparison of the module's
context with the calling thread's, the comparison of sender and recipient contexts, and delegations -/
def ownership (tbl : List (String × List (String × Int))) : List (String × List (String × Int)) :=
  tbl.map fun p => (p.1, p.2.filter fun g =>
    g.2 == 7778 || ["mod", "!m_mod_is(mod, M_MOD_ZOMBIE)", "(mod->ctx == m_ctx())", "(mod->ctx == recipient->ctx)", "recipient",
      "*mod", "!m_mod_is(*mod, M_MOD_ZOMBIE)", "(*mod->ctx == m_ctx())", "(c == m_ctx())",
      "ref", "!m_mod_is(ref, M_MOD_ZOMBIE)", "(ref->ctx == m_ctx())"].contains g.1)

/-- the guard lists of the named functions (per-property slices: a property's obligation mentions only the entry points it is about) -/
def slice (tbl : List (String × List (String × Int))) (names : List String) : List (String × List (String × Int)) :=
  tbl.filter fun p => names.contains p.1

/-- the numeric codes the model uses are the ones of the headers -/
theorem codes_as_modelled :
    (-EPERM, -ENOENT, -EAGAIN, -EACCES, -EEXIST, -EINVAL, -EPIPE) =
      (Lm.Core.EPERM, Lm.Core.ENOENT, Lm.Core.EAGAIN, Lm.Core.EACCES, Lm.Core.EEXIST, Lm.Core.EINVAL, Lm.Core.EPIPE) := by decide

/-- state and flag bits are distinct single bits, as the mask tests of the model assume -/
theorem state_bits : [M_MOD_IDLE, M_MOD_RUNNING, M_MOD_PAUSED, M_MOD_STOPPED, M_MOD_ZOMBIE] = [1, 2, 4, 8, 16] := by decide

end Lm.Inst.CoreTie
''' % (B3, body)
open(os.path.join(V, 'lean/Lm/Inst/CoreTie.lean'), 'w').write(out)
print('wrote CoreTie.lean')
