#!/usr/bin/env python3
"""debug helper: first correspondence mismatch of a plug-in, with full context"""
import sys, os, random
sys.path.insert(0, os.path.dirname(os.path.abspath(__file__)))
from vlib import *
import check
P = check.load_plugin(sys.argv[1])
seed = int(sys.argv[2]) if len(sys.argv) > 2 else 1
n = int(sys.argv[3]) if len(sys.argv) > 3 else 300
ok, log = lake_build(['lmdriver'])
if not ok: print(log[-3000:]); sys.exit(1)
exe, log = build_harness(P.HARNESS_NAME, P.HARNESS_SRC, P.LIB_SRCS, extra=getattr(P, 'HARNESS_EXTRA', ()), defines=getattr(P, 'DEFINES', ()))
if not exe: print(log[-3000:]); sys.exit(1)
rng = random.Random(seed)
scripts = P.scripts(rng, 'quick')[:n]
impl, model, err = check.run_both(P, exe, scripts, True, 'dbg')
bad = 0
shown = 0
for sid, lines in scripts:
    sv, mm = check.eval_script(P, sid, lines, impl, model)
    if mm or sv:
        bad += 1
        if shown < int(os.environ.get('SHOW', '1')):
            shown += 1
            print('=== script', sid); print('\n'.join(lines))
            open(os.path.join(WORK,'t','last.ops'),'w').write('# 1\n'+'\n'.join(lines)+'\n')
            a = P.project(impl[sid]); b = P.project(model.get(sid, []))
            if os.environ.get('RAW'): print('--- raw impl'); print('\n'.join(impl[sid]))
            print('--- impl | model (from %d)' % mm['at'] if mm else '--- spec %s' % sv)
            d = mm['at'] if mm else 0
            for i in range(max(0, d - 6), min(max(len(a), len(b)), d + 6)):
                x = a[i] if i < len(a) else '<none>'; y = b[i] if i < len(b) else '<none>'
                print(('  ' if x == y else '! ') + x + ('' if x == y else '\n      M: ' + y))
if os.environ.get('RAW') and bad:
    pass
print('mismatching scripts: %d / %d' % (bad, len(scripts)))
if err.strip() and os.environ.get('ERR'): print(err[-3000:])
