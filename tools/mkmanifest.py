#!/usr/bin/env python3
"""Regenerates MANIFEST.json from the per-property claims below (kept here so that it stays valid)."""
import json, os
V = os.path.dirname(os.path.dirname(os.path.abspath(__file__)))
NOTE = ('Trusted: Lean 4.33 kernel (axioms propext, Classical.choice, Quot.sound only; audited per theorem on every run), '
        'the extractor (extract/*.py over the clang-14 JSON AST), the correspondence harness and its generator coverage '
        '(agreement only on explored scripts), compiler + sanitizer runtime; user callbacks, kernel and allocator are modelled, not verified.')
TECH = 'Lean 4 theorem over a model tied to the code by regenerated fragments and differential correspondence'
CLAIMS = {
 'C10': ('full', "Lean 4 proof (10 theorems): layout of a block (alignment for every size, shift byte, get_header round trip, data fits, initial refs/size) proved about definitions re-translated from Lib/mem/mem.c on every run (tie A); ref-count machine (no use-after-free under the ownership precondition, alive iff referenced with exact counter, destructor and free exactly once and in order with unbounded nesting, size reported, no leak) proved for every history by induction; tied to the compiled library by a differential run over all sizes 0..8192 and random histories (tie B). Destructor fan-out is modelled as one child per destructor.", '§7 C10'),
 'C12': ('full', "Lean 4 proof (18 theorems) over chain models of queue.c/stack.c/list.c with node identities, the queue tail pointer and iterator link pointers as the C keeps them: well-formedness preserved by every operation incl. every iterator operation at every position; refinement to FIFO / LIFO / stable list machines for an arbitrary comparator; iterators visit each node once in container order; exact lengths; destructor accounting with multiplicity; for every history respecting the iterator-invalidation contract. Tie B: 287k scripts per quick run incl. all op sequences up to length 6/6/5.", '§7 C12'),
 'C11': ('full', "Lean 4 proof (21 theorems) for every TotalOrderCmp comparator and every script: search-tree invariant, set semantics of insert/find/remove, exact length, ascending in-order, pre/post/in-order of one tree, iterator with removal visits each element once ascending, destructor receives exactly the removed element once. Tie A: ptrcmp regenerated from bst.c and proved a total order on all 2^64 x 2^64 address pairs. Tie B: all K! insertion orders (K<=5 quick, 7 thorough) with removals, far-apart pointers, random scripts.", '§7 C11'),
 'C05': ('full', "Lean 4 proof (16 theorems) for every hash function (home-slot function), every power-of-two size and flag combination: probing invariant W1-W4 holds in every reachable state; under it get/contains/len/put/remove/rehash/iterate/iterator/clear act exactly like a dictionary with exact destructor and key alloc/free events; key ledger over whole histories. Tie A: default size, probe length, load rule, back-shift decision and string hash regenerated from map.c, side conditions closed in C05_fragments_good. Tie B: map_harness vs model incl. iteration order, adversarial key sets (shared home slot, wrapping clusters, growth).", '§7 C05'),
}
CLAIMS['C06'] = ('partial', "Lean 4 proof (11 theorems, none _partial) about a labelled transition system with one program counter per pthread primitive / shared access of thpool.c (after the three fix commits), for every interleaving of any number of submitters, workers (eager, LAZY, DETACHED) and the freeing thread incl. spurious wake-ups and pthread_create failures: at-most-once execution with the own argument, bounded parallelism, mutual exclusion, free(wait_all)/free(!wait_all) return conditions, discarded tasks never run, no touch after free, no deadlock. Partial: the tie to the C code is trace acceptance on sampled schedules under a deterministic scheduler shim (2008 quick / 28008 thorough, every plain access of the pool object is a scheduling point) plus TSan real-thread runs; liveness beyond deadlock freedom is not proved; POSIX primitives are encoded, not verified.", '§7 C06')
PENDING = 'check not built yet in this round; not claimed until its theorems and correspondence exist (DESIGN.md §7)'


def main():
    props = [json.loads(l) for l in open(os.path.join(V, 'properties.jsonl'))]
    extra = {}
    p = os.path.join(V, 'tools', 'claims_extra.json')
    if os.path.exists(p):
        extra = json.load(open(p))
    claims = dict(CLAIMS)
    claims.update({k: tuple(v) for k, v in extra.items()})
    checks, na = [], []
    for pr in props:
        pid = pr['id']
        if pid in claims and os.path.exists(os.path.join(V, 'tools', 'props', pid.lower() + '.py')):
            strength, text, ref = claims[pid]
            checks.append({
                'property_id': pid,
                'quick_cmd': 'python3 tools/check.py %s --tier quick' % pid,
                'thorough_cmd': 'python3 tools/check.py %s --tier thorough' % pid,
                'evidence_file': 'evidence/%s.json' % pid,
                'replay_cmd_template': 'python3 tools/check.py %s --replay {path}' % pid,
                'engine': 'lean4-proof+correspondence',
                'level_claimed': {'category': 'proof', 'text': '[%s] %s' % (strength, text), 'design_ref': ref},
                'level_note': NOTE, 'technique': TECH})
        else:
            na.append({'property_id': pid, 'reason': PENDING})
    m = {'version': 1, 'setup_cmd': 'cd lean && lake build Lm lmdriver',
         'hooks': {'guard': 'FEDEDP_LIBMODULE_VERIF',
                   'enable': 'checks compile /repo/Lib/**.c themselves with clang-14 -DFEDEDP_LIBMODULE_VERIF; no guarded source hook exists (observation uses m_set_memhook, -Wl,--wrap, private headers read-only, fork-contained sanitizer runs)',
                   'baseline_off_cmd': '(test -f /repo/_build/build.ninja || cmake -G Ninja -S /repo -B /repo/_build -DBUILD_TESTS=ON -DCMAKE_BUILD_TYPE=RelWithDebInfo) && cmake --build /repo/_build && ctest --test-dir /repo/_build -j8 --timeout 900',
                   'source_commits': [], 'add_only': True},
         'engines': [{'name': 'lean4-proof+correspondence', 'path': 'tools/check.py', 'serves_properties': [c['property_id'] for c in checks],
                      'kind_free_text': 'Lean 4 models + theorems (lean/Lm), extractor (extract/), C harnesses (harness/), compiled model driver (lmdriver), python orchestration and independent spec oracles (tools/)'}],
         'checks': checks, 'notes': 'See DESIGN.md; fix commits and findings are in known_findings.json.', 'not_applicable': na}
    json.dump(m, open(os.path.join(V, 'MANIFEST.json'), 'w'), indent=1)
    print('claimed:', [c['property_id'] for c in checks])


if __name__ == '__main__':
    main()
