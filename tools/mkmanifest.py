#!/usr/bin/env python3
"""Regenerates MANIFEST.json from the per-property claims below (kept here so that it stays valid)."""
import json, os
V = os.path.dirname(os.path.dirname(os.path.abspath(__file__)))
NOTE = ('Trusted: Lean 4.33 kernel (axioms propext, Classical.choice, Quot.sound only; audited per theorem on every run), '
        'the extractor (extract/*.py over the clang-14 JSON AST), the correspondence harness and its generator coverage '
        '(agreement only on explored scripts), compiler + sanitizer runtime; user callbacks, kernel and allocator are modelled, not verified.')
TECH = 'Lean 4 theorem over a model tied to the code by regenerated fragments and differential correspondence'
CLAIMS = {
 'C10': ('full', "Lean 4 proof (10 theorems): layout of a block (alignment for every size, shift byte, get_header round trip, data fits, initial refs/size) proved about definitions re-translated from Lib/mem/mem.c on every run (tie A); ref-count machine (no use-after-free under the ownership precondition, alive iff referenced with exact counter, destructor and free exactly once and in order with unbounded nesting, size reported, no leak) proved for every history by induction; tied to the compiled library by a differential run over all sizes 0..8192 and random histories (tie B). Destructor fan-out is modelled as one child per destructor.", '§7 C10'),
 'C12': ('full', "Lean 4 proof (18 theorems) over chain models of queue.c/stack.c/list.c with node identities, the queue tail pointer and iterator link pointers as the C keeps them: well-formedness preserved by every operation incl. every iterator operation at every position; refinement to FIFO / LIFO / stable list machines for an arbitrary comparator; iterators visit each node once in container order; exact lengths; destructor accounting with multiplicity; for every history respecting the iterator-invalidation contract. Tie B: 287k scripts per quick run incl. all op sequences up to length 6/6/5.", '§7 C12'),
 'C11': ('full', "Lean 4 proof (21 theorems) for every TotalOrderCmp comparator and every script: search-tree invariant, set semantics of insert/find/remove, exact length, ascending in-order, pre/post/in-order of one tree, iterator with removal visits each element once ascending, destructor receives exactly the removed element once. Tie A: ptrcmp regenerated from bst.c and proved a total order on all 2^64 x 2^64 address pairs. Tie B: all K! insertion orders (K<=5 quick, 7 thorough) with removals, far-apart pointers, random scripts.", '§7 C11'),
 'C05': ('full', "Lean 4 proof (16 theorems) for every hash function (home-slot function), every power-of-two size and flag combination: probing invariant W1-W4 holds in every reachable state; under it get/contains/len/put/remove/rehash/iterate/iterator/clear act exactly like a dictionary with exact destructor and key alloc/free events; key ledger over whole histories. Tie A: default size, probe length, load rule, back-shift decision and string hash regenerated from map.c, side conditions closed in C05_fragments_good. Tie B: map_harness vs model incl. iteration order, adversarial key sets (shared home slot, wrapping clusters, growth).", '§7 C05'),
}
CLAIMS['C06'] = ('partial', "Lean 4 proof (11 theorems, none _partial) about a labelled transition system with one program counter per pthread primitive / shared access of thpool.c (after the three fix commits), for every interleaving of any number of submitters, workers (eager, LAZY, DETACHED) and the freeing thread incl. spurious wake-ups and pthread_create failures: at-most-once execution with the own argument, bounded parallelism, mutual exclusion, free(wait_all)/free(!wait_all) return conditions, discarded tasks never run, no touch after free, no deadlock. Partial: the tie to the C code is trace acceptance on sampled schedules under a deterministic scheduler shim (2008 quick / 28008 thorough, every plain access of the pool object is a scheduling point) plus TSan real-thread runs; liveness beyond deadlock freedom is not proved; POSIX primitives are encoded, not verified.", '§7 C06')

CORE_TIE = (" Tie B: core_harness (the real ctx.c/mod.c/ps.c/evts.c/src.c/epoll plugin + containers, clang-14 ASan+UBSan) and the compiled Lean model run the same"
            " random programs with nested callback bodies; every output line (return codes, INVOKE lines with events, frees, closes, states, counters) is diffed and an independent oracle of the property runs over the implementation's trace."
            " Partial: the model is hand-written (no regenerated fragment for the core), agreement is established on explored scripts only; kernel readiness order is recorded, not predicted.")
CLAIMS['C01'] = ('partial', "Lean 4 proof (9 theorems) over the core machine (library functions as programs with a callback effect; a rely/guarantee logic lifts per-API triples to every line sequence, i.e. every callback program, nesting depth and return value): running counter = number of RUNNING modules in every reachable configuration incl. mid-callback; a module out of its context's table is STOPPED or ZOMBIE; refused start/pause/resume/stop change nothing; ZOMBIE refuses everything; pause runs no callback. Callback pairing counts are checked by the oracle on traces, not yet as a trace theorem." + CORE_TIE, '§7 C01')
CLAIMS['C02'] = ('partial', "Lean 4 proof (6 theorems) about the sending side: a copy goes only to the addressed/eligible RUNNING|PAUSED module, exactly one copy appended with sender/topic/payload/system flag, nobody else touched; auto-free holder released exactly with the last reference, at once when nobody is eligible, never without the flag. End-to-end conservation (each copy delivered once or discarded for a stated reason) is checked by the oracle on explored histories, not proved." + CORE_TIE, '§7 C02')
CLAIMS['C03'] = ('partial', "Lean 4 proof (7 theorems): a stale poll entry is skipped without effect; a one-shot source leaves the registry before its event is handed over; the event goes to the registering module; the loop body stops exactly on quit/no running module; quit records the code; dispatch is the loop unrolled (same three programs); the errno line touches only errno. Which sources become ready is the kernel's choice (recorded batches)." + CORE_TIE, '§7 C03')
CLAIMS['C04'] = ('partial', "Lean 4 proof (6 theorems) about the ownership protocol the model carries (auto-free holder freed iff last reference, never twice, temporary references neutral, teardown paths only unref, module objects persist while handles may name them). Memory safety of the C statements is sampled: every correspondence script of every core property runs under ASan+UBSan and a sanitizer report is a FAULT line no model produces." + CORE_TIE, '§7 C04')
CLAIMS['C07'] = ('partial', "Lean 4 proof (7 theorems): one context per thread (-EEXIST, no change); no context => every ctx call -EPIPE and module ops refused, no change; looping context refuses deregistration; finalized refuses registration; deregistration releases the context for every behaviour of the stop hooks; a fresh context can be registered afterwards; counter invariant across contexts." + CORE_TIE, '§7 C07')
CLAIMS['C08'] = ('partial', "Lean 4 proof (3 theorems): consecutive sends to one module are appended to its mailbox in send order; the loop-stop flush hands over the prefix before a pill in mailbox order and nothing behind it; a pill is ordered like any message. The end-to-end order theorem over whole histories is checked by the oracle, not yet proved; pipe FIFO is the kernel's." + CORE_TIE, '§7 C08')
CLAIMS['C09'] = ('partial', "Lean 4 proof (9 theorems): register of a present key -EEXIST without effect, new key registered, lookup finds it, removal takes exactly that one, absent key refused without effect, task deregistration -EPERM, parameter guards first, stop drops all, pause keeps all, src_len counts user sources. Comparators of src.c are exercised through the correspondence (timers, descriptors, subscriptions), not translated." + CORE_TIE, '§7 C09')
CLAIMS['C13'] = ('partial', "Lean 4 proof (9 theorems): the push_evt decision table (handler runs iff HIGH, or batch timer with pending events, or NORM and queue length >= batch size; never for LOW alone), whole queue handed over in arrival order and emptied, default = immediate, stop resets batching, clearing the timeout restores the default." + CORE_TIE, '§7 C13')
CLAIMS['C15'] = ('partial', "Lean 4 proof (9 theorems): names unique among the modules of a context in every reachable configuration; duplicate name refused unless ALLOW_REPLACE; DENY_PUB/DENY_SUB/DENY_CTX/PERSIST/reserved-topic refusals change nothing; the executing module is restored after nested callbacks (so DENY_CTX holds at every depth)." + CORE_TIE, '§7 C15')
CLAIMS['C16'] = ('partial', "Lean 4 proof (6 theorems): unstash n hands the current handler exactly the oldest min(n,|stash|) events in stash order and removes them, returns that count; nothing stashed => 0 and no invocation; stash only RUNNING and non-HIGH; stash appends with original content; stop discards the stash." + CORE_TIE, '§7 C16')
CLAIMS['C17'] = ('partial', "Lean 4 proof (7 theorems): an invocation uses the top of the become stack at invocation time, else the registration handler; become pushes, unbecome pops exactly the top, -EINVAL on empty; both refused unless RUNNING; stop empties the stack; a change inside a handler affects the next invocation only." + CORE_TIE, '§7 C17')
CLAIMS['C18'] = ('partial', "Lean 4 proof (7 theorems): a token-consuming call takes exactly one token, is refused with -EAGAIN without effect when none is left; no bucket no limit; a refill tick adds one token capped at burst; successes in any history <= initial tokens + refill ticks (induction over arbitrary histories); rate 0 / stop remove the limit; configured bucket starts full with period floor(1e9/rate). Real-time spacing of refill ticks is the kernel timer's." + CORE_TIE, '§7 C18')
CLAIMS['C19'] = ('partial', "Lean 4 proof (4 theorems): shape of every notification (system flag, no payload, topic, sender, never auto-freed); only RUNNING|PAUSED subscribers are sent one; user messages are never system-flagged; pause/resume notify like stop/start. One-notification-per-occurrence over whole histories is checked by the oracle, not proved." + CORE_TIE, '§7 C19')
CLAIMS['C20'] = ('partial', "Lean 4 proof (10 theorems): removing a source closes its descriptor iff AUTOCLOSE; a removed source is neither registered nor polled nor in its owner's lists (cannot be closed again); stop/reset paths emit only payload frees, pipe ends and AUTOCLOSE closes; pause closes nothing; reset leaves no pipe. Kernel fd semantics assumed; the harness wraps pipe/close and compares the close log." + CORE_TIE, '§7 C20')
PENDING = "C14 check (multi-context non-interference, static inventory, TSan) is under construction in this round; not claimed until its theorems and correspondence exist (DESIGN.md §7 C14)"


def main():
    props = [json.loads(l) for l in open(os.path.join(V, 'properties.jsonl'))]
    extra = {}
    p = os.path.join(V, 'tools', 'claims_extra.json')
    if os.path.exists(p):
        extra = json.load(open(p))
    claims = dict(CLAIMS)
    claims.update({k: tuple(v) for k, v in extra.items()})
    checks, na = [], []
    for pr in props:
        pid = pr['id']
        if pid in claims and os.path.exists(os.path.join(V, 'tools', 'props', pid.lower() + '.py')):
            strength, text, ref = claims[pid]
            checks.append({
                'property_id': pid,
                'quick_cmd': 'python3 tools/check.py %s --tier quick' % pid,
                'thorough_cmd': 'python3 tools/check.py %s --tier thorough' % pid,
                'evidence_file': 'evidence/%s.json' % pid,
                'replay_cmd_template': 'python3 tools/check.py %s --replay {path}' % pid,
                'engine': 'lean4-proof+correspondence',
                'level_claimed': {'category': 'proof', 'text': '[%s] %s' % (strength, text), 'design_ref': ref},
                'level_note': NOTE, 'technique': TECH})
        else:
            na.append({'property_id': pid, 'reason': PENDING})
    m = {'version': 1, 'setup_cmd': 'cd lean && lake build Lm lmdriver',
         'hooks': {'guard': 'FEDEDP_LIBMODULE_VERIF',
                   'enable': 'checks compile /repo/Lib/**.c themselves with clang-14 -DFEDEDP_LIBMODULE_VERIF; no guarded source hook exists (observation uses m_set_memhook, -Wl,--wrap, private headers read-only, fork-contained sanitizer runs)',
                   'baseline_off_cmd': '(test -f /repo/_build/build.ninja || cmake -G Ninja -S /repo -B /repo/_build -DBUILD_TESTS=ON -DCMAKE_BUILD_TYPE=RelWithDebInfo) && cmake --build /repo/_build && ctest --test-dir /repo/_build -j8 --timeout 900',
                   'source_commits': [], 'add_only': True},
         'engines': [{'name': 'lean4-proof+correspondence', 'path': 'tools/check.py', 'serves_properties': [c['property_id'] for c in checks],
                      'kind_free_text': 'Lean 4 models + theorems (lean/Lm), extractor (extract/), C harnesses (harness/), compiled model driver (lmdriver), python orchestration and independent spec oracles (tools/)'}],
         'checks': checks, 'notes': 'See DESIGN.md; fix commits and findings are in known_findings.json.', 'not_applicable': na}
    json.dump(m, open(os.path.join(V, 'MANIFEST.json'), 'w'), indent=1)
    print('claimed:', [c['property_id'] for c in checks])


if __name__ == '__main__':
    main()
