#!/usr/bin/env python3
"""Run the registered quick check of each seeded change's property against /repo with the change applied
(git -C /repo apply <patch>; check; git -C /repo checkout -- .), and record what the check reported.
usage: seedrun.py <out.json> [ids…]      (run from a checkout of /verif; /repo must be clean)"""
import os, sys, json, subprocess, time
V = os.path.dirname(os.path.dirname(os.path.abspath(__file__)))
SEEDED = os.path.join('/verif', 'seeded')


def sh(cmd, cwd=None, timeout=3600):
    p = subprocess.run(cmd, cwd=cwd, capture_output=True, text=True, timeout=timeout)
    return p.returncode, p.stdout + p.stderr


def main():
    out = sys.argv[1]
    ids = sys.argv[2:]
    rc, st = sh(['git', '-C', '/repo', 'status', '--porcelain', '--untracked-files=no'])
    if st.strip():
        print('/repo is not clean'); sys.exit(2)
    res = json.load(open(out)) if os.path.exists(out) else {}
    for mid in sorted(os.listdir(SEEDED)):
        if ids and mid not in ids and mid.split('-')[0] not in ids:
            continue
        meta = json.load(open(os.path.join(SEEDED, mid, 'meta.json')))
        prop = meta['property']
        rc, o = sh(['git', '-C', '/repo', 'apply', os.path.join(SEEDED, mid, 'patch.diff')])
        if rc != 0:
            res[mid] = {'error': 'patch does not apply: ' + o[-300:]}
            continue
        try:
            t0 = time.time()
            rc, o = sh(['python3', 'tools/check.py', prop, '--tier', 'quick'], cwd=V)
            lines = [l for l in o.splitlines() if l.startswith(('VIOLATION', 'OK ', '# ', 'KNOWN', 'INFRA'))]
            res[mid] = {'property': prop, 'exit': rc, 'reported': [l[:300] for l in lines[:6]], 'wall_s': round(time.time() - t0, 1),
                        'detected': rc == 1 and any(l.startswith('VIOLATION property=%s ' % prop) for l in lines),
                        'with_failing_input': any(l.startswith('VIOLATION') and 'no-failing-input-found' not in l for l in lines)}
        finally:
            sh(['git', '-C', '/repo', 'checkout', '--', '.'])
        print(mid, res[mid].get('exit'), ' | '.join(res[mid].get('reported', [])[:2])[:200], flush=True)
        json.dump(res, open(out, 'w'), indent=1)
    # evidence files written while a change was applied describe the changed tree: restore the evidence of the clean tree
    sh(['git', '-C', V, 'checkout', '--', 'evidence'])
    # the checks regenerated the tie-A fragments from the changed sources: bring them back to the restored tree
    for g in ('mem', 'bst', 'map', 'core'):
        sh(['python3', os.path.join(V, 'extract', 'gen_%s.py' % g)])


if __name__ == '__main__':
    main()
