"""debug plug-in: full alphabet"""
from props.coreplug import *
from props import corelib
ID = 'CFULL'
PROPS_MODULE = 'Lm.Props.C01'
PROPS_FILE = 'Lm/Props/C01.lean'
RULE = 'full alphabet'
def scripts(rng, tier):
    return [('rnd:%d' % i, corelib.gen_script(rng, FULL_ALPHABET, rng.randrange(5, 50))) for i in range(300)]
def spec(lines, out): return []
def nontrivial(lines, out): return True
