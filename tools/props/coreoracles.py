"""Independent python oracles of the core properties over the implementation's trace only."""
import re
from props.corelib import align, parse_dump, parse_invoke, legal_path

LIFE = ('start', 'pause', 'resume', 'stop', 'dereg')
CTX_OPS = ('ctx_reg', 'ctx_dereg', 'finalize', 'dispatch', 'loop', 'quit', 'ctx_len', 'tick', 'reg')


def neg(r):
    try:
        return int(r) < 0
    except (TypeError, ValueError):
        return False


def isint(r):
    try:
        int(r); return True
    except (TypeError, ValueError):
        return False


class Trace:
    def __init__(self, lines, out):
        self.lines = lines
        self.out = [o for o in out if not o.startswith('closes:') and not o.startswith('frees:')]
        self.recs, self.events_all, self.ok = align(lines, self.out)
        self.events = [e for e in self.events_all if e[0] != 'B']      # 'B': a recorded poll batch, in output order
        self.reg = {}        # handle -> (name, flags, hooks)
        for r in self.recs:
            t = r.op.split()
            if t[0] == 'reg' and len(t) == 5 and r.result == '0':
                self.reg[t[1]] = (t[2], t[3], t[4])
        self.fault = any(o.startswith('FAULT') for o in out)


def common(tr):
    v = []
    if tr.fault:
        v.append(('fault', 'the library crashed or tripped a sanitizer: ' + next(o for o in tr.out if o.startswith('FAULT'))))
    return v


def handler_running(tr):
    """events are handed to a module's handler only while the module is RUNNING (C02, C03, C08 state it as well as C01)"""
    v = []
    for kind, inv, r in tr.events:
        if kind == 'I' and inv.startswith('INVOKE on_evt'):
            cb, hd, h, stt, evs = parse_invoke(inv)
            if stt != 'R':
                v.append(('handler_running', 'handler invoked for %s in state %s (during `%s`)' % (h, stt, r.op)))
    return v


def c01(lines, out):
    tr = Trace(lines, out)
    v = common(tr)
    prev = {}
    for o in tr.out:
        if o.startswith('S '):
            ctx, mods = parse_dump(o)
            for h, m in mods.items():
                a = prev.get(h, 'I')
                if not legal_path(a, m['state']):
                    v.append(('edges', 'module %s went from %s to %s' % (h, a, m['state'])))
                prev[h] = m['state']
            if ctx['state'] is not None:
                nrun = sum(1 for m in mods.values() if m['state'] == 'R')
                if ctx['run'] != nrun:
                    v.append(('counter', 'context reports %d running modules, %d are RUNNING: %s' % (ctx['run'], nrun, o)))
        elif o.startswith('INVOKE on_evt'):
            cb, hd, h, stt, evs = parse_invoke(o)
            if stt != 'R':
                v.append(('handler_running', 'handler invoked for %s in state %s' % (h, stt)))
    for r in tr.recs:
        t = r.op.split()
        if t[0] in LIFE and neg(r.result) and not r.invokes and r.prev_dump and r.dump and r.dump != r.prev_dump:
            v.append(('refused_unchanged', '%s returned %s but the state changed: %s -> %s' % (r.op, r.result, r.prev_dump, r.dump)))
        if t[0] in LIFE and len(t) == 2 and t[1] in tr.reg and r.result is not None:
            hooks = tr.reg[t[1]][2]
            own = [parse_invoke(i) for i in r.invokes]
            ns = sum(1 for (cb, _, h, _, _) in own if cb == 'on_start' and h == t[1])
            nt = sum(1 for (cb, _, h, _, _) in own if cb == 'on_stop' and h == t[1])
            _, pm = parse_dump(r.prev_dump)
            before = pm.get(t[1], {}).get('state') if r.prev_dump else None
            if t[0] in ('pause', 'resume') and (ns or nt):
                v.append(('pairing', '%s ran a start/stop callback' % r.op))
            if t[0] == 'start' and r.result == '0' and before in ('I', 'S') and ns != (1 if 's' in hooks else 0):
                v.append(('pairing', '%s ran on_start %d times' % (r.op, ns)))
            if t[0] == 'stop' and r.result == '0' and before in ('R', 'P') and nt != (1 if 't' in hooks else 0):
                v.append(('pairing', '%s ran on_stop %d times' % (r.op, nt)))
            if t[0] == 'dereg' and r.result == '0' and before in ('R', 'P') and nt != (1 if 't' in hooks else 0):
                v.append(('pairing', '%s of a %s module ran on_stop %d times' % (r.op, before, nt)))
            if t[0] == 'start' and r.dump and before in ('I', 'S'):
                # "RUNNING or PAUSED to STOPPED on … a refusing start callback": whatever the hook did meanwhile
                refused = [val for (inv, val) in r.cbrets if parse_invoke(inv)[0] == 'on_start' and parse_invoke(inv)[2] == t[1]]
                _, am = parse_dump(r.dump)
                after = am.get(t[1], {}).get('state')
                i0 = tr.recs.index(r)
                inner = []
                for x in tr.recs[i0 + 1:]:
                    if x.depth <= r.depth: break
                    inner.append(x)
                # the hooks themselves may legitimately bring the module back (a stop hook that starts it again)
                restarted = any(x.op.split()[0] in ('start', 'resume', 'dispatch', 'loop') for x in inner)
                if refused and refused[-1] is False and len(refused) == 1 and after in ('R', 'P') and not restarted:
                    v.append(('refusing_start', '%s: the start callback refused, yet the module is %s afterwards' % (r.op, after)))
    return v


def c07(lines, out):
    tr = Trace(lines, out)
    v = common(tr)
    persist = None
    for r in tr.recs:
        t = r.op.split()
        pctx, pm = parse_dump(r.prev_dump) if r.prev_dump else ({'state': None}, {})
        ctx, mods = parse_dump(r.dump) if r.dump else (None, {})
        had_ctx = pctx['state'] is not None
        if t[0] == 'ctx_reg':
            if had_ctx and r.depth == 0 and r.result != '-17':
                v.append(('one_ctx', 'second m_ctx_register returned %s' % r.result))
            if r.result == '0':
                persist = t[1] == '1'
        elif not had_ctx and r.prev_dump and r.depth == 0:
            if t[0] in CTX_OPS and t[0] != 'ctx_reg' and not neg(r.result):
                v.append(('no_ctx', '%s without a context returned %s' % (r.op, r.result)))
            if t[0] not in CTX_OPS and t[0] not in ('unref', 'burst') and isint(r.result) and not neg(r.result):   # (dropping a reference is not a context call; a burst reports how many tells were accepted)
                v.append(('no_ctx', '%s without a context returned %s' % (r.op, r.result)))
            if r.dump and r.dump != r.prev_dump:
                v.append(('no_ctx', '%s without a context had an effect' % r.op))
        if t[0] == 'ctx_dereg' and r.result == '0' and ctx is not None and r.depth == 0:
            if ctx['state'] is not None or any(m['state'] != 'Z' for m in mods.values()):
                v.append(('teardown', 'after m_ctx_deregister: %s' % r.dump))
        if t[0] == 'ctx_dereg' and pctx['state'] == 'idle' and r.depth == 0 and neg(r.result):
            v.append(('idle_deregisters', 'm_ctx_deregister on an idle context (no callback running) returned %s' % r.result))
        if t[0] == 'ctx_dereg' and pctx['state'] == 'loop' and r.depth == 0 and not neg(r.result):
            v.append(('looping_refuses', 'm_ctx_deregister on a looping context returned %s' % r.result))
        if t[0] == 'reg' and pctx.get('fin') and r.depth == 0 and not neg(r.result):
            v.append(('finalized', 'registration in a finalized context returned %s' % r.result))
        if t[0] == 'dereg' and r.result == '0' and ctx and ctx['state'] == 'idle' and persist is False and not r.invokes \
                and mods and all(m['state'] == 'Z' for m in mods.values()) and r.depth == 0:
            v.append(('auto_release', 'last module deregistered from an idle non persistent context but the context is still there'))
    return v


def c15(lines, out):
    tr = Trace(lines, out)
    v = common(tr)
    for r in tr.recs:
        # between callbacks a module being deregistered is already out of the table: look at top-level returns only
        if r.depth == 0 and r.dump:
            _, mods = parse_dump(r.dump)
            names = [tr.reg[h][0] for h, m in mods.items() if m['state'] != 'Z' and h in tr.reg]
            if len(names) != len(set(names)):
                v.append(('unique_names', 'two live modules share a name: %s' % r.dump))
    for r in tr.recs:
        t = r.op.split()
        if len(t) >= 2 and t[1] in tr.reg and r.result is not None and isint(r.result):
            fl = tr.reg[t[1]][1]
            changed = r.prev_dump and r.dump and r.dump != r.prev_dump
            if 'B' in fl and t[0] in ('tell', 'pub', 'pill') and (not neg(r.result) or changed):
                v.append(('deny_pub', '%s by a DENY_PUB module returned %s' % (r.op, r.result)))
            if 'S' in fl and t[0] in ('sub', 'unsub') and (not neg(r.result) or changed):
                v.append(('deny_sub', '%s by a DENY_SUB module returned %s' % (r.op, r.result)))
            if t[0] == 'pub' and t[2].startswith('LIBMODULE_') and not neg(r.result):
                v.append(('reserved_topic', '%s returned %s' % (r.op, r.result)))
            if t[0] == 'dereg' and 'P' in fl and r.prev_dump and parse_dump(r.prev_dump)[0]['state'] == 'loop' and not neg(r.result):
                v.append(('persist', '%s of a PERSIST module while looping returned %s' % (r.op, r.result)))
        if r.parent_cb and t[0] in CTX_OPS and isint(r.result):
            cb, hd, h, stt, evs = parse_invoke(r.parent_cb)
            if h in tr.reg and 'C' in tr.reg[h][1] and not neg(r.result):
                v.append(('deny_ctx', '%s inside %s of DENY_CTX module %s returned %s' % (r.op, cb, h, r.result)))
    return v


def c17(lines, out):
    tr = Trace(lines, out)
    v = common(tr)
    stack = {}
    for kind, inv, r in tr.events:
        if kind == 'I':
            cb, hd, h, stt, evs = parse_invoke(inv)
            if cb == 'on_evt':
                top = stack.get(h, [])
                exp = top[-1] if top else 0
                if hd != exp:
                    v.append(('handler', 'handler #%s invoked for %s, top of the become stack is #%s' % (hd, h, exp)))
        else:
            t = r.op.split()
            _, pm = parse_dump(r.prev_dump) if r.prev_dump else (None, {})
            if t[0] == 'become' and r.result == '0':
                stack.setdefault(t[1], []).append(int(t[2]))
            if t[0] == 'unbecome':
                if r.result == '0':
                    if not stack.get(t[1]):
                        v.append(('unbecome', 'unbecome succeeded on an empty stack'))
                    else:
                        stack[t[1]].pop()
                elif isint(r.result) and stack.get(t[1]) and pm.get(t[1], {}).get('state') == 'R' and r.result not in ('-11', '-1'):
                    v.append(('unbecome', '%s failed with %s on a non empty stack' % (r.op, r.result)))
            if t[0] in ('become', 'unbecome') and r.result == '0' and pm.get(t[1], {}).get('state') not in (None, 'R'):
                v.append(('running_only', '%s accepted in state %s' % (r.op, pm[t[1]]['state'])))
            if r.dump:
                _, mods = parse_dump(r.dump)
                for h, m in mods.items():
                    if m['state'] in ('S', 'Z', 'I'):
                        stack[h] = []
                    elif 'recvs' in m and m['recvs'] != len(stack.get(h, [])):
                        # an empty stack can be the trace of a stop + restart that happened inside a callback
                        # (no dump in between shows the STOPPED state)
                        if m['recvs'] != 0:
                            v.append(('stack_len', '%s: stack length %d, expected %d' % (h, m['recvs'], len(stack.get(h, [])))))
                        stack[h] = stack.get(h, [])[:m['recvs']]
    return v


def deliveries(tr, include_unstash=False):
    """(recipient, topic, sender, payload, sys, userdata, record) of every pub/sub event handed to a handler, in order"""
    res = []
    for kind, inv, r in tr.events:
        if kind == 'I':
            cb, hd, h, stt, evs = parse_invoke(inv)
            if cb != 'on_evt':
                continue
            if r.op.split()[0] == 'unstash' and not include_unstash:
                continue
            for k, f in evs:
                if k == 'ps':
                    res.append((h, f[0], f[1], f[2], f[3], f[4], r))
    return res


def c02(lines, out):
    tr = Trace(lines, out)
    v = common(tr)
    v += handler_running(tr)
    sends = {}
    for r in tr.recs:
        t = r.op.split()
        if t[0] == 'tell' and r.result == '0':
            sends[t[3]] = ('tell', t[1], t[2], '-', t[4])
        if t[0] == 'pub' and r.result == '0':
            sends[t[3]] = ('pub', t[1], None, t[2], t[4])
        if t[0] == 'burst' and isint(r.result):
            # count tells in a row with consecutive payloads
            # (each call either was accepted or refused; when only some were, which ones is not known: 'maybe')
            k, n = int(r.result), int(t[5])
            for i in range(n if k > 0 else 0):
                sends['p%d' % (int(t[3][1:]) + i)] = ('tell', t[1], t[2], '-', t[4] if k == n else ('maybe' if t[4] == '1' else '0'))
    seen = set()
    freed = set()
    for o in tr.out:
        if o.startswith('free p'):
            p = o.split()[1]
            if p in freed:
                v.append(('autofree_once', 'payload %s released twice' % p))
            freed.add(p)
            if p not in sends or sends[p][4] not in ('1', 'maybe'):
                v.append(('autofree_only', 'payload %s released but it was not sent with the auto-free flag' % p))
        elif o.startswith('INVOKE on_evt'):
            for k, f in parse_invoke(o)[4]:
                if k == 'ps' and f[3] == '0' and f[2] in freed:
                    v.append(('autofree_after_use', 'payload %s handed to a handler after it was released' % f[2]))
    lk = leakcheck_of(out)
    if lk is not None and not tr.fault:
        # the context is gone and every reference dropped: every auto-free payload that was accepted has had its last recipient
        for p, snd in sends.items():
            if snd[4] == '1' and p not in freed:
                v.append(('autofree_released', 'payload %s was sent with the auto-free flag and never released, although everything was torn down' % p))
                break
    for (h, topic, sender, p, sys, ud, r) in deliveries(tr):
        if sys == '1':
            continue
        if p not in sends:
            v.append(('sent', 'payload %s delivered to %s but never accepted from a sender' % (p, h)))
            continue
        kind, snd, rcpt, tp, af = sends[p]
        if sender != snd or topic != tp:
            v.append(('content', 'payload %s delivered with sender %s topic %s, sent by %s on %s' % (p, sender, topic, snd, tp)))
        if kind == 'tell' and h != rcpt:
            v.append(('recipient', 'payload %s told to %s was delivered to %s' % (p, rcpt, h)))
        if (h, p) in seen:
            v.append(('once', 'payload %s delivered twice to %s' % (p, h)))
        seen.add((h, p))
    return v


def c08(lines, out):
    tr = Trace(lines, out)
    v = common(tr)
    v += handler_running(tr)
    last = {}
    stashers = set(r.op.split()[1] for r in tr.recs if r.op.split()[0] == 'stash' and r.result == '0')
    # the order in which payloads were sent (records are in script order, which is the order of the calls)
    sent_at = {}
    for r in tr.recs:
        t = r.op.split()
        if t[0] in ('tell', 'pub') and r.result == '0' and len(t) > 3:
            sent_at.setdefault(t[3], len(sent_at) + 1)
        if t[0] == 'burst' and isint(r.result) and len(t) > 5:
            for i in range(int(t[5])):
                sent_at.setdefault('p%d' % (int(t[3][1:]) + i), len(sent_at) + 1)
    for (h, topic, sender, p, sys, ud, r) in deliveries(tr):
        if sys == '1' or h in stashers or p not in sent_at:
            continue
        n = sent_at[p]
        if n < last.get(h, (0, None))[0]:
            v.append(('order', 'module %s received payload %s after %s, which was sent later' % (h, p, last[h][1])))
        if n > last.get(h, (0, None))[0]:
            last[h] = (n, p)
    # "a poison pill stops its recipient only after every message sent to it earlier has been delivered": when the loop itself
    # (not an explicit stop / deregistration) runs the stop callback of a module with an accepted pill pending, every payload
    # told to it before the pill — while it was RUNNING, and not stashed away by it — must have been handed to its handler
    if any(r.op.split()[0] == 'burst' for r in tr.recs):
        return v
    told, got, pend = {}, {}, {}
    behind = {}      # module -> payloads told to it after an accepted pill: they are behind it in the mailbox, never to be seen
    for kind, inv, r in tr.events:
        t = r.op.split()
        if kind == 'R':
            if t[0] == 'tell' and r.result == '0' and t[2] in pend:
                behind.setdefault(t[2], set()).add(t[3])
            if t[0] == 'tell' and r.result == '0' and r.dump:
                _, mods = parse_dump(r.dump)
                if mods.get(t[2], {}).get('state') == 'R':
                    told.setdefault(t[2], []).append(t[3])
            if t[0] == 'pill' and r.result == '0' and t[2] not in pend:      # (the first pending pill is the one that stops it)
                pend[t[2]] = [p for p in told.get(t[2], []) if p not in got.get(t[2], set())]
            if r.dump:
                # (whatever call it was: a module seen outside RUNNING / PAUSED has lost its mailbox)
                _, mods = parse_dump(r.dump)
                for h, m in mods.items():
                    if m['state'] in ('S', 'Z', 'I'):
                        told.pop(h, None); pend.pop(h, None); behind.pop(h, None)
                cx, _ = parse_dump(r.dump)
                px, _ = parse_dump(r.prev_dump) if r.prev_dump else ({'state': None}, None)
                if px['state'] == 'loop' and cx['state'] != 'loop':
                    # a loop stop leaves no mailbox content behind: RUNNING modules were flushed, the others' messages destroyed
                    told.clear(); pend.clear(); behind.clear()
        else:
            cb, hd, h, stt, evs = parse_invoke(inv)
            if cb == 'on_evt':
                for k, f in evs:
                    if k == 'ps':
                        got.setdefault(h, set()).add(f[2])
                        # (not judged for a dispatch issued from inside a callback: the handler run by the pill's own flush
                        # may re-enter the loop before the module is stopped)
                        if f[2] in behind.get(h, ()) and t[0] != 'unstash' and h not in stashers and r.depth == 0:
                            v.append(('after_pill', '%s was handed %s, which was told to it after a poison pill it had accepted' % (h, f[2])))
            # (a stop callback that follows a refusing start callback of the same module in the same call is the refusal's)
            refusal = any(parse_invoke(i2)[0] == 'on_start' and parse_invoke(i2)[2] == h and not val for (i2, val) in r.cbrets)
            if cb == 'on_stop' and h in pend and t[0] in ('dispatch', 'loop') and h not in stashers and not refusal:
                missing = [p for p in pend[h] if p not in got.get(h, set())]
                if missing:
                    v.append(('pill_after_earlier', 'the pill stopped %s although %s, told to it before the pill, were never handed to it' % (h, ' '.join(missing))))
            if cb in ('on_stop', 'on_start'):
                # a stop destroys the mailbox, a start makes a new one: nothing told before is pending any more
                told.pop(h, None); pend.pop(h, None); behind.pop(h, None)
    return v


def c19(lines, out):
    tr = Trace(lines, out)
    v = common(tr)
    for (h, topic, sender, p, sys, ud, r) in deliveries(tr, True):
        if sys == '1':
            if not topic.startswith('LIBMODULE_') or p != 'p0':
                v.append(('system_shape', 'system message with topic %s payload %s' % (topic, p)))
            if topic in ('LIBMODULE_MOD_STARTED', 'LIBMODULE_MOD_STOPPED') and sender == '-':
                v.append(('system_sender', '%s without a sender' % topic))
            if topic in ('LIBMODULE_CTX_STARTED', 'LIBMODULE_CTX_STOPPED', 'LIBMODULE_CTX_TICK') and sender != '-':
                v.append(('system_sender', '%s naming a sender' % topic))
        elif topic.startswith('LIBMODULE_'):
            v.append(('system_flag', 'message on %s without the system flag' % topic))
    # never a notification that corresponds to no transition of the named module: every entry into RUNNING and every
    # pause / stop / deregistration of a module is visible in the trace (state printed with each hook invocation and
    # after every call, also the nested ones), so the notifications naming X that one recipient was handed can never
    # outnumber the transitions of X seen so far
    seen, enters, leaves = {}, {}, {}
    got = {}
    # a refusing start callback stops its module inside the same call, possibly without any trace of its own before the
    # notification is handed over (no stop hook): while such a module is still shown as RUNNING, one more stop is allowed for
    refusals = {}
    for rr in tr.recs:
        for (i2, val) in rr.cbrets:
            pi = parse_invoke(i2)
            if pi[0] == 'on_start' and not val:
                refusals[pi[2]] = refusals.get(pi[2], 0) + 1

    def observe(x, st):
        # (the evaluation pass of the loop starts IDLE modules without any trace of its own when they have no start hook:
        # an IDLE module seen next as PAUSED / STOPPED / gone may have been started and left RUNNING in between)
        a = seen.get(x, 'I')
        if a != st:
            if st == 'R' or (a in ('I', 'S') and st == 'P') or (a == 'I' and st in ('S', 'Z')):
                enters[x] = enters.get(x, 0) + 1
            # (a deregistration is announced whatever the state of the module was)
            if (a in ('R', 'P') and st in ('P', 'S')) or (a in ('I', 'S') and st == 'P') or (a == 'I' and st == 'S') or st == 'Z':
                leaves[x] = leaves.get(x, 0) + 1
            seen[x] = st
    for kind, inv, r in tr.events:
        if kind == 'I':
            cb, hd, h, stt, evs = parse_invoke(inv)
            observe(h, stt)
            if cb == 'on_evt' and r.op.split()[0] != 'unstash':
                for k, f in evs:
                    if k == 'ps' and f[3] == '1' and f[1] not in ('-', '?') and f[0] in ('LIBMODULE_MOD_STARTED', 'LIBMODULE_MOD_STOPPED'):
                        key = (h, f[0], f[1])
                        got[key] = got.get(key, 0) + 1
                        lim = (enters if f[0].endswith('STARTED') else leaves).get(f[1], 0)
                        if f[0].endswith('STOPPED') and seen.get(f[1]) in ('R', 'P') and refusals.get(f[1]):
                            lim += 1      # the stop that follows a refusing start callback, not yet shown by any state line
                        if f[0].endswith('STARTED') and seen.get(f[1], 'I') == 'I':
                            lim += 1      # started by the evaluation pass of this very call, not yet shown
                        if got[key] > lim:
                            v.append(('one_per_transition', '%s was handed notification number %d of %s naming %s, which made %d such transitions'
                                      % (h, got[key], f[0], f[1], lim)))
        elif r.dump:
            _, mods = parse_dump(r.dump)
            for x, m in mods.items():
                observe(x, m['state'])
            for x in [x for x in seen if x not in mods]:
                observe(x, 'Z')
    return v


def c16(lines, out):
    tr = Trace(lines, out)
    v = common(tr)
    stash = {}
    handled = set()

    def do_unstash(r, got_invoke):
        """the events leave the stash before the handler is invoked"""
        t = r.op.split()
        n = int(t[2]); have = stash.get(t[1], [])
        exp = have[:n]
        stash[t[1]] = have[n:]
        handled.add(id(r))
        return exp

    pending = {}
    for kind, inv, r in tr.events:
        t = r.op.split()
        if kind == 'I':
            if t[0] == 'unstash' and id(r) not in handled:
                cb, hd, h, stt, evs = parse_invoke(inv)
                exp = do_unstash(r, True)
                pending[id(r)] = exp
                if cb == 'on_evt' and h == t[1] and [(k, f[:4]) for k, f in evs] != [(k, f[:4]) for k, f in exp]:
                    v.append(('oldest_first', '%s handed back %s, oldest stashed are %s' % (r.op, evs, exp)))
            continue
        _, pm = parse_dump(r.prev_dump) if r.prev_dump else (None, {})
        if t[0] == 'stash' and r.result == '0' and r.evt_cb:
            evs = parse_invoke(r.evt_cb)[4]
            i = int(t[2])
            if i < len(evs):
                stash.setdefault(t[1], []).append(evs[i])
                st = pm.get(t[1], {}).get('state')
                if st is not None and st != 'R':
                    v.append(('running_only', 'stash accepted in state %s' % st))
                if evs[i][0] == 'fd':
                    # descriptor events are always high priority (enforced at registration, whatever flags were given)
                    v.append(('never_high', '%s: a descriptor event (high priority) was accepted for stashing' % r.op))
        if t[0] == 'unstash' and isint(r.result) and int(r.result) >= 0:
            exp = pending.pop(id(r), None)
            if exp is None:
                exp = do_unstash(r, False)
                if exp:
                    v.append(('one_invocation', '%s returned %s without invoking the handler' % (r.op, r.result)))
            if int(r.result) != len(exp):
                v.append(('count', '%s returned %s, %d events were to be handed back' % (r.op, r.result, len(exp))))
            own = [i for i in r.invokes if parse_invoke(i)[0] == 'on_evt' and parse_invoke(i)[2] == t[1]]
            if len(own) > 1:
                v.append(('one_invocation', '%s invoked the handler %d times' % (r.op, len(own))))
        if r.dump:
            _, mods = parse_dump(r.dump)
            for h, m in mods.items():
                if m['state'] in ('S', 'Z', 'I'):
                    if m.get('stash', 0) != 0:
                        v.append(('discarded_on_stop', '%s is not RUNNING or PAUSED and still holds %d stashed events' % (h, m['stash'])))
                    stash[h] = []
                elif 'stash' in m and m['stash'] != len(stash.get(h, [])):
                    if m['stash'] != 0:   # empty: possibly a stop + restart inside a callback
                        v.append(('stash_len', '%s holds %d stashed events, expected %d' % (h, m['stash'], len(stash.get(h, [])))))
                    stash[h] = stash.get(h, [])[:m['stash']]
    return v


def c09(lines, out):
    tr = Trace(lines, out)
    v = common(tr)
    sets = {}     # handle -> {'fd': {key: oneshot}, 'tmr': {...}, 'sub': {...}}
    last = {}     # handle -> last state seen

    def S(h):
        return sets.setdefault(h, {'fd': {}, 'tmr': {}, 'sub': {}})

    for kind, inv, r in tr.events_all:
        if kind == 'B':
            # a task source leaves the registry when its poll entry is processed: from the BATCH line that reports it on it
            # is 'f' (fired: gone or about to go)
            for e in inv.split()[1:]:
                f2 = e.split(':')
                if f2[0] == 'task' and S(f2[1]).setdefault('task', {}).get(f2[2]) == 'o':
                    S(f2[1])['task'][f2[2]] = 'f'
            continue
        # (the entry may also have gone stale - its module paused or stopped by an earlier callback of the batch - and the task
        # still be registered: 'f' stays "maybe" until the task's event is handed over)
        if kind == 'I':
            cb, hd, h, stt, evs = parse_invoke(inv)
            if (stt in ('S', 'Z') and last.get(h) not in ('S', 'Z')) or cb == 'on_stop':   # on_stop runs right after the sources were dropped
                sets[h] = {'fd': {}, 'tmr': {}, 'sub': {}}      # the stop transition drops every source
            last[h] = stt
            if cb == 'on_evt' and r.op.split()[0] != 'unstash':
                for k, f in evs:
                    if k == 'fd' and S(h)['fd'].get(f[0][1:]) == 'o': del S(h)['fd'][f[0][1:]]
                    if k == 'tmr' and S(h)['tmr'].get(f[0]) == 'o': del S(h)['tmr'][f[0]]
                    if k == 'task' and S(h).get('task', {}).get(f[0]) == 'f': del S(h)['task'][f[0]]
            continue
        t = r.op.split()
        res = r.result

        def apply_dump():
            _, mods = parse_dump(r.dump)
            for h, m in mods.items():
                # registering on a stopped module is allowed: only the transition drops the sources
                if m['state'] in ('S', 'Z') and last.get(h) not in ('S', 'Z'):
                    sets[h] = {'fd': {}, 'tmr': {}, 'sub': {}}
                last[h] = m['state']
            for h in [h for h in last if h not in mods]:
                del last[h]; sets.pop(h, None)
        # a registry call does not change any module's state: a stop seen only now happened before it (a refusing start
        # callback without stop hook, say), so what the call registers is registered after the drop
        early = r.dump and t[0].startswith(('reg_', 'dereg_', 'sub', 'unsub'))
        if early:
            apply_dump()
        if not isint(res):
            continue
        if t[0] in ('reg_fd', 'reg_tmr'):
            kd = t[0][4:]; key = t[2][1:] if kd == 'fd' else t[2]
            if kd == 'fd' and 'd' in t[3]:
                # M_SRC_DUP: the source *is* the duplicate the library makes (its identifying value is the duplicate's number,
                # which the user never learns): literal reading, see DESIGN.md §7 C09 observations
                key = str(100 + int(key))
            if res == '0':
                # a one-shot source leaves the set when it fires, which this oracle cannot see for low-priority events
                if key in S(t[1])[kd] and S(t[1])[kd][key] != 'o':
                    v.append(('dup_key', '%s succeeded although the key is registered' % r.op))
                S(t[1])[kd][key] = 'o' if 'o' in t[3] else '-'
            elif key in S(t[1])[kd] and res not in ('-17', '-11', '-13', '-1', '-22'):
                v.append(('dup_key', '%s on a present key returned %s' % (r.op, res)))
        if t[0] in ('dereg_fd', 'dereg_tmr'):
            kd = t[0][6:]; key = t[2][1:] if kd == 'fd' else t[2]
            if res == '0':
                if key not in S(t[1])[kd]:
                    v.append(('absent_key', '%s succeeded although the key is absent' % r.op))
                S(t[1])[kd].pop(key, None)
            elif key in S(t[1])[kd] and S(t[1])[kd][key] != 'o' and res not in ('-11', '-13', '-1'):
                v.append(('present_key', '%s on a present key failed with %s' % (r.op, res)))
        # task sources: keyed by the task id, one-shot by nature, and they cannot be deregistered
        if t[0] == 'reg_task' and t[1] in tr.reg:
            st = S(t[1]).setdefault('task', {})
            if res == '0':
                if st.get(t[2]) == 'o': v.append(('dup_key', '%s succeeded although the key is registered' % r.op))
                st[t[2]] = 'o'
            elif t[2] in st and res not in ('-17', '-11', '-13', '-1', '-22'):
                v.append(('dup_key', '%s on a present key returned %s' % (r.op, res)))
        if t[0] == 'dereg_task' and t[1] in tr.reg:
            if not neg(res): v.append(('task_dereg', '%s returned %s: task sources cannot be deregistered' % (r.op, res)))
            if r.prev_dump and r.dump and r.dump != r.prev_dump and not r.invokes:
                v.append(('task_dereg', '%s had an effect' % r.op))
        # signal / pid / path / threshold sources: the same keyed-set behaviour, keyed by the identifying value
        if t[0] in ('reg_sgn', 'reg_pid', 'reg_path', 'reg_thr', 'dereg_sgn', 'dereg_pid', 'dereg_path', 'dereg_thr') and t[1] in tr.reg:
            kd = t[0].split('_')[1]
            isreg = t[0].startswith('reg_')
            key = (t[2], t[3]) if kd == 'thr' else t[2]
            fl = (t[4] if kd == 'thr' else t[3]) if isreg else ''
            valid = (key != ('0', '0')) if kd == 'thr' else (key != '0')
            st = S(t[1]).setdefault(kd, {})
            if not valid:
                if not neg(res): v.append(('bad_params', '%s (invalid parameters) returned %s' % (r.op, res)))
            elif isreg:
                if res == '0':
                    if key in st: v.append(('dup_key', '%s succeeded although the key is registered' % r.op))
                    st[key] = 'o' if 'o' in fl else '-'
                elif key in st and res not in ('-17', '-11', '-13', '-1', '-22'):
                    v.append(('dup_key', '%s on a present key returned %s' % (r.op, res)))
                elif key not in st and res == '-17':
                    v.append(('new_key', '%s: the key is not registered, yet the call was refused with EEXIST' % r.op))
            else:
                if res == '0':
                    if key not in st: v.append(('absent_key', '%s succeeded although the key is absent' % r.op))
                    st.pop(key, None)
                elif key in st and res not in ('-11', '-13', '-1'):
                    v.append(('present_key', '%s on a present key failed with %s' % (r.op, res)))
        if t[0] == 'sub' and res == '0': S(t[1])['sub'][t[2]] = t[4]
        if t[0] == 'unsub' and res == '0':
            if t[2] not in S(t[1])['sub']:
                v.append(('absent_key', '%s succeeded although the topic is absent' % r.op))
            S(t[1])['sub'].pop(t[2], None)
        if r.dump and not early:
            apply_dump()
        if t[0] == 'srclen' and int(res) >= 0:
            s = S(t[1])
            exp = sum(len(x) for x in s.values())
            # one-shot subscriptions may have been consumed: accept the range
            lo = exp - sum(1 for x in s['sub'].values() if x == '1') - sum(1 for k in s if k != 'sub' for x in s[k].values() if x in ('o', 'f'))
            if not (lo <= int(res) <= exp):
                v.append(('count', '%s returned %s, the registered sets hold %d' % (r.op, res, exp)))
    return v


def c18(lines, out):
    tr = Trace(lines, out)
    v = common(tr)
    burst = {}
    for kind, inv, r in tr.events:
        if kind != 'R':
            continue
        t = r.op.split()
        if t[0] == 'tb' and r.result == '0':
            burst[t[1]] = None if t[2] == '0' else int(t[3])
        if r.result == '-11' and r.prev_dump and len(t) > 1:
            _, pm = parse_dump(r.prev_dump)
            if t[1] in pm and pm[t[1]].get('tk', 0) is None and pm[t[1]]['state'] != 'Z' and not r.invokes:
                v.append(('no_bucket_no_limit', '%s refused with EAGAIN although the module has no token bucket (none configured since its last stop)' % r.op))
        if r.result == '-11' and r.prev_dump and r.dump and r.dump != r.prev_dump and not r.invokes:
            v.append(('refused_unchanged', '%s was refused with EAGAIN but had an effect' % r.op))
        if r.dump:
            _, mods = parse_dump(r.dump)
            _, pm = parse_dump(r.prev_dump) if r.prev_dump else (None, {})
            for h, m in mods.items():
                if m.get('tk') is not None and burst.get(h) is not None and m['tk'] > burst[h]:
                    v.append(('burst', '%s holds %d tokens, burst is %d' % (h, m['tk'], burst[h])))
                if m['state'] in ('S', 'Z'):
                    if t[0] in ('stop', 'dereg', 'pill') and len(t) > 1 and t[1] == h and pm.get(h, {}).get('state') in ('R', 'P') \
                            and m.get('tk') is not None and not r.invokes:
                        v.append(('stop_resets', '%s was stopped but still has a token bucket' % h))
                    if t[0] != 'tb':
                        burst.pop(h, None) if m.get('tk') is None else None
    return v


def c03(lines, out):
    tr = Trace(lines, out)
    v = common(tr)
    v += handler_running(tr)
    owner = {}
    ever = set()
    tm_live, tm_gone, tm_low, batching = set(), set(), set(), set()
    task_reg = {}      # (module, task id) -> user data of the registration whose event is still to come
    # one-shot subscriptions: (module, user data) -> deliveries since the subscription was made; judged only when that user
    # data value identifies the subscription among all the module ever made
    os_count, ud_topics = {}, {}
    for r in tr.recs:
        t = r.op.split()
        if t[0] == 'sub' and len(t) == 6:
            ud_topics.setdefault((t[1], t[5]), set()).add((t[2], t[4]))
    last_state = {}
    quit_code = None
    for kind, inv, r in tr.events:
        if kind == 'I':
            cb, hd, h, stt, evs = parse_invoke(inv)
            if cb == 'on_stop' or (stt in ('S', 'Z') and last_state.get(h) not in ('S', 'Z')):
                # the stop hook runs right after the sources were dropped: what it registers is new
                for k in [k for k, o in owner.items() if o[0] == h]:
                    del owner[k]; ever.discard(k)
                for k in [k for k in task_reg if k[0] == h]:
                    del task_reg[k]
                last_state[h] = stt if stt in ('S', 'Z') else 'S'
            if cb == 'on_evt' and r.op.split()[0] != 'unstash' and not any(x.op.split()[0] == 'stash' for x in tr.recs):
                for k, f in evs:
                    if k == 'ps' and (h, f[4]) in os_count and len(ud_topics.get((h, f[4]), ())) == 1:
                        os_count[(h, f[4])] += 1
                        if os_count[(h, f[4])] == 2:
                            v.append(('oneshot_once', 'the one-shot subscription of %s with user data %s delivered a second message (%s on %s)' % (h, f[4], f[2], f[0])))
                    # (an event already received and waiting in the module's batch - low priority, batch size or batch
                    # timeout - is legitimately handed over after its source left: only immediate delivery is judged)
                    if k == 'tmr' and ('tmr', h, f[0]) in tm_gone and ('tmr', h, f[0]) not in tm_live \
                            and ('tmr', h, f[0]) not in tm_low and h not in batching:
                        v.append(('registered_only', 'event of timer %s delivered to %s although it was deregistered' % (f[0], h)))
                    if k == 'task':
                        # (a task source leaves the registry when it fires; with low priority or batching its event is handed
                        # over later, possibly after the same id was registered again: registrations are a multiset)
                        regs = task_reg.get((h, f[0]), [])
                        if not regs:
                            v.append(('registered_only', 'event of task %s delivered to %s, which has no such task registered' % (f[0], h)))
                        elif f[2][1:] not in regs:
                            v.append(('owner', 'event of task %s of %s registered with user data %s delivered with %s' % (f[0], h, ' / '.join('u' + x for x in regs), f[2])))
                        else:
                            regs.remove(f[2][1:])      # one event per registration
                            if int(f[1]) != int(f[2][1:]) + 100:
                                v.append(('task_result', 'task %s of %s ran with argument %s and returns %d, the event reports %s' % (f[0], h, f[2], int(f[2][1:]) + 100, f[1])))
                    if k == 'fd':
                        o = owner.get(('fd', f[0][1:]))
                        if o is None and ('fd', f[0][1:]) in ever and ('fd', f[0][1:]) not in tm_low and h not in batching:
                            v.append(('registered_only', 'event of descriptor %s delivered to %s although the source is not registered any more' % (f[0], h)))
                        if o and (o[0] != h or 'u' + o[1] != f[1]):
                            v.append(('owner', 'event of descriptor %s registered by %s with u%s delivered to %s with %s' % (f[0], o[0], o[1], h, f[1])))
            continue
        t = r.op.split()
        if t[0] == 'reg_fd' and r.result == '0':
            # with M_SRC_DUP the source is the library's duplicate (reported as 100 + k)
            owner[('fd', str(100 + int(t[2][1:])) if 'd' in t[3] else t[2][1:])] = (t[1], t[4][1:])
            ever.add(('fd', str(100 + int(t[2][1:])) if 'd' in t[3] else t[2][1:]))
            (tm_low.add if 'l' in t[3] else tm_low.discard)(('fd', str(100 + int(t[2][1:])) if 'd' in t[3] else t[2][1:]))
            if 'o' in t[3]: ever.discard(('fd', str(100 + int(t[2][1:])) if 'd' in t[3] else t[2][1:]))   # (a one-shot leaves by itself)
        if t[0] == 'dereg_fd' and r.result == '0': owner.pop(('fd', t[2][1:]), None)
        if t[0] == 'sub' and len(t) == 6 and r.result == '0':
            if t[4] == '1': os_count[(t[1], t[5])] = 0
            else: os_count.pop((t[1], t[5]), None)
        if t[0] == 'reg_task' and r.result == '0': task_reg.setdefault((t[1], t[2]), []).append(t[4][1:])
        if t[0] == 'reg_tmr' and r.result == '0':
            tm_live.add(('tmr', t[1], t[2])); tm_gone.discard(('tmr', t[1], t[2]))
            (tm_low.add if 'l' in t[3] else tm_low.discard)(('tmr', t[1], t[2]))
        if t[0] in ('batch_size', 'batch_to') and len(t) > 1: batching.add(t[1])
        if t[0] == 'dereg_tmr' and r.result == '0': tm_gone.add(('tmr', t[1], t[2])); tm_live.discard(('tmr', t[1], t[2]))
        if t[0] == 'quit' and r.result == '0': quit_code = int(t[1]) % 256
        if any(x == 'BATCH !quit' for x in r.out): quit_code = 77
        if t[0] in ('dispatch', 'loop') and r.prev_dump and r.depth == 0:
            pctx, _ = parse_dump(r.prev_dump)
            ctx, _ = parse_dump(r.dump) if r.dump else (None, None)
            if t[0] == 'dispatch' and pctx['state'] == 'loop' and pctx['quit'] and quit_code is not None and isint(r.result) \
                    and int(r.result) != quit_code and not r.nested:
                v.append(('quit_code', 'loop stopped with %s, requested code %d' % (r.result, quit_code)))
        if t[0] == 'dispatch' and isint(r.result) and int(r.result) < 0 and r.result not in ('-22', '-32'):
            # a delivery step returns the number of events it handled; only "no context" and "being torn down" are refusals
            v.append(('loop_error', 'm_ctx_dispatch returned %s' % r.result))
        if t[0] == 'loop' and isint(r.result) and r.depth == 0 and r.prev_dump:
            pctx, _ = parse_dump(r.prev_dump)
            if pctx['state'] == 'idle':
                quits = [int(x.op.split()[1]) % 256 for x in tr.recs if x.op.split()[0] == 'quit' and x.result == '0' and x.depth > 0]
                forced = any(o == 'BATCH !quit' for o in tr.out)
                ok = {0} | set(quits) | ({77} if forced else set())
                if int(r.result) >= 0 and int(r.result) not in ok:
                    v.append(('loop_error', 'm_ctx_loop returned %s: no module asked to quit with that code (requested: %s)' % (r.result, sorted(set(quits)))))
        if r.dump:
            _, mods = parse_dump(r.dump)
            for h, m in mods.items():
                # only the transition into STOPPED / ZOMBIE drops the sources (registering on a stopped module is allowed)
                if m['state'] in ('S', 'Z') and last_state.get(h) not in ('S', 'Z'):
                    for k in [k for k, o in owner.items() if o[0] == h]:
                        del owner[k]; ever.discard(k)
                    for k in [k for k in task_reg if k[0] == h]:
                        del task_reg[k]
                last_state[h] = m['state']
    return v


def c20(lines, out):
    tr = Trace(lines, out)
    v = common(tr)
    auto = set()
    for r in tr.recs:
        t = r.op.split()
        if t[0] == 'reg_fd' and r.result == '0' and 'a' in t[3]:
            auto.add(t[2][1:])
    closed = set()
    nr = nw = 0
    for o in out:
        if not o.startswith('close '):
            continue
        b = o.split()[1]
        if b.startswith('fd:'):
            k = b[3:]
            if k not in auto:
                v.append(('user_fd', 'descriptor f%s closed by the library although it was never registered with auto-close' % k))
            if k in closed:
                v.append(('user_fd_once', 'descriptor f%s closed twice' % k))
            closed.add(k)
        elif b == 'BADFD':
            v.append(('double_close', 'the library closed a descriptor that is not open (closed before, or never its own)'))
        elif b.startswith('dup:'):
            pass      # a duplicate the library made for itself: its to close (that it does close it is the leak check below)
        elif b == 'pipe-r':
            nr += 1
        elif b == 'pipe-w':
            nw += 1
    last = None
    for x in out:
        if x.startswith('S '):
            last = x
    if last and tr.ok:
        _, mods = parse_dump(last)
        open_pipes = sum(1 for m in mods.values() if m.get('pipe') == 1)
        if nr != nw and open_pipes == 0:
            v.append(('pipes', 'every module pipe is gone but %d read ends and %d write ends were closed' % (nr, nw)))
    lk = leakcheck_of(out)
    if lk and lk[1] > 0 and not tr.fault:
        v.append(('fd_leak', 'after the context was deregistered %d descriptors opened by the library are still open' % lk[1]))
    if lk and lk[1] < 0 and not tr.fault:
        v.append(('fd_foreign_close', 'after the teardown %d descriptors the library does not own are closed' % -lk[1]))
    return v


def leakcheck_of(out):
    """(live blocks, extra descriptors) reported after a complete teardown, or None"""
    for o in out:
        m = re.match(r'LEAKCHECK live=(-?\d+) fds=(-?\d+)', o)
        if m:
            return int(m.group(1)), int(m.group(2))
    return None


def c04(lines, out):
    tr = Trace(lines, out)
    v = common(tr)
    lk = leakcheck_of(out)
    if lk and lk[0] != 0 and not tr.fault:
        v.append(('teardown_leak', 'after the context was deregistered and every user reference dropped, %d blocks allocated by the library are still allocated' % lk[0]))
    return v


def c13(lines, out):
    tr = Trace(lines, out)
    v = common(tr)
    size_set = set()
    for r in tr.recs:
        t = r.op.split()
        if t[0] == 'batch_size' and r.result == '0' and t[2] != '0': size_set.add(t[1])
        if t[0] == 'batch_size' and r.result == '0' and t[2] == '0': size_set.discard(t[1])
        if r.dump:
            _, mods = parse_dump(r.dump)
            for h, m in mods.items():
                if m['state'] in ('S', 'Z'): size_set.discard(h)
        if t[0] == 'batch_to' and t[2] == '0' and r.result == '0' and r.dump and t[1] not in size_set:
            _, mods = parse_dump(r.dump)
            if mods.get(t[1], {}).get('blen') == 'inf':
                v.append(('default_immediate', '%s: neither a batch size nor a timeout is configured any more, yet events are still accumulated without bound' % r.op))
    for kind, inv, r in tr.events:
        if kind != 'R':
            continue
        _, mods = parse_dump(r.dump) if r.dump else (None, {})
        _, pm = parse_dump(r.prev_dump) if r.prev_dump else (None, {})
        # events still accumulated when the module is stopped are discarded
        for h, m in mods.items():
            if m['state'] == 'S' and m.get('bq', 0) != 0:
                v.append(('discarded_on_stop', '%s is STOPPED and still holds %d accumulated events' % (h, m['bq'])))
        # descriptor events are always high priority: the poll batch that reports a descriptor of a RUNNING module is
        # followed, before the call returns, by a handler invocation that carries it - whatever batching is configured
        # (judged only when no callback of the call issued calls of its own)
        if not r.nested:
            for o in r.out:
                if not o.startswith('BATCH '):
                    continue
                for e in o.split()[1:]:
                    f = e.split(':')
                    if f[0] == 'fd' and pm.get(f[1], {}).get('state') == 'R' and mods.get(f[1], {}).get('state') == 'R':
                        got = any(parse_invoke(i)[0] == 'on_evt' and parse_invoke(i)[2] == f[1] and
                                  any(k == 'fd' and x[0] == 'f' + f[2] for k, x in parse_invoke(i)[4]) for i in r.invokes)
                        if not got:
                            v.append(('fd_immediate', '%s: descriptor f%s of RUNNING module %s was reported ready, but its event was not handed over before the call returned' % (r.op, f[2], f[1])))
    return v


def c14(lines, out):
    """thread confinement on the implementation's trace: a call made from a foreign thread, and a message addressed to
    a module of another context, fail — with a permission error for a live module — and change nothing"""
    tr = Trace(lines, out)
    v = common(tr)
    for r in tr.recs:
        t = r.op.split()
        if t[0] == 'foreign' and len(t) >= 4 and isint(r.result):
            _, pm = parse_dump(r.prev_dump) if r.prev_dump else (None, {})
            st = pm.get(t[3], {}).get('state')
            if not neg(r.result):
                v.append(('foreign_refused', '%s (issued by another thread) returned %s' % (r.op, r.result)))
            elif st is not None and st != 'Z' and r.result not in ('-1', '-22'):
                # -EINVAL only from the parameter checks that precede the module check
                v.append(('foreign_refused', '%s on a live module returned %s, not a permission error' % (r.op, r.result)))
            if r.invokes:
                v.append(('foreign_no_effect', '%s ran a callback' % r.op))
            if r.prev_dump and r.dump and r.dump != r.prev_dump:
                v.append(('foreign_no_effect', '%s changed the owner\'s state: %s -> %s' % (r.op, r.prev_dump, r.dump)))
        if t[0] == 'xtell' and isint(r.result):
            if not neg(r.result):
                v.append(('cross_ctx_send', '%s (recipient belongs to another context) returned %s' % (r.op, r.result)))
            if r.invokes or (r.prev_dump and r.dump and r.dump != r.prev_dump):
                v.append(('cross_ctx_send', '%s had an effect' % r.op))
    return v
