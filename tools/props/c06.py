"""C06 — thread pool: every accepted task runs at most once, clean shutdown, no deadlock.

Flow (differs from the script-diff flow, hence its own main):
  proof stage (Lm.Props.C06 + axiom audit)  ->  build thpool.c under the scheduler shim (ASan+UBSan)
  ->  run S schedules (corpus first)  ->  every recorded trace is (i) judged by the python monitor
  below (the property, independent of Lean) and (ii) fed to `lmdriver thpool` (trace acceptance by
  the model the theorems are about, plus the model-side monitor on the final state)
  ->  thorough tier: TSan build without the shim, real threads, stress scenarios.
A replay file is a JSON with the configuration line (which contains the schedule seed), the recorded
trace and what was wrong with it; `--replay` re-runs that schedule and re-judges it."""
import os, sys, json, random, re, time, collections, subprocess
sys.path.insert(0, os.path.dirname(os.path.dirname(os.path.abspath(__file__))))
import vlib
from vlib import VERIF, REPO, WORK, sh, Report, proof_stage, save_replay, INC_DIRS, driver_exe

ID = 'C06'
MODEL = 'thpool'
PROPS_MODULE = 'Lm.Props.C06'
PROPS_FILE = 'Lm/Props/C06.lean'
LIB_SRCS = ['Lib/structs/queue.c', 'Lib/structs/list.c', 'Lib/utils/mem.c', 'Lib/utils/log.c']
RULE = ('one evaluation = one complete schedule of {main: new, free} + submitters + pool workers under the cooperative '
        'scheduler shim (PRNG-chosen runnable thread at every pthread_* call, queue/list access, first plain access to the '
        'pool object after a scheduling point, task start/end and API boundary; spurious wake-ups injected; pthread_create failures injected in ~15% of the configurations), judged by '
        'the python monitor and replayed through the Lean transition system; non-trivial = at least two pool/submitter '
        'threads took turns, at least one task ran, and the trace differs from every other one')
FLAVOURS = {0: 'eager', 1: 'lazy', 2: 'detached', 3: 'lazy+detached'}
STRICT = os.environ.get('VERIF_C06_STRICT', '1') == '1'   # a trace the model rejects is a broken correspondence (reported with no-failing-input-found)


# ------------------------------------------------------------------------------------------------
# build
# ------------------------------------------------------------------------------------------------
def _cc(sanitize, extra):
    cmd = ['clang-14', '-std=gnu11', '-D_GNU_SOURCE', '-DFEDEDP_LIBMODULE_VERIF', '-g', '-O1', '-w',
           '-fno-omit-frame-pointer', '-pthread', '-fsanitize=' + sanitize, '-fno-sanitize-recover=all']
    cmd += ['-I' + os.path.join(REPO, d) for d in INC_DIRS] + ['-I' + os.path.join(VERIF, 'harness')]
    return cmd + extra


def build(shim=True):
    """-> (exe or None, log).  thpool.c is compiled on its own so that only it sees the shim."""
    out = os.path.join(WORK, 'bin')
    os.makedirs(out, exist_ok=True)
    tag = 'shim' if shim else 'tsan'
    obj = os.path.join(out, 'thpool_%s_%d.o' % (tag, os.getpid()))
    exe = os.path.join(out, 'thpool_harness_%s_%d' % (tag, os.getpid()))
    san = 'address,undefined' if shim else 'thread'
    pre = ['-include', os.path.join(VERIF, 'harness', 'sched_shim.h')] if shim else []
    # shim mode: thpool.c gets the *instrumentation* of -fsanitize=thread (a call at every memory access);
    # the __tsan_* entry points are the harness's own (scheduling point + access log), no TSan runtime is linked
    rc, o, e = sh(_cc('thread,undefined' if shim else san, pre + ['-DLIBMODULE_LOG_CTX=THPOOL', '-c', os.path.join(REPO, 'Lib/thpool/thpool.c'), '-o', obj]), timeout=600)
    if rc != 0:
        return None, o + e
    rc, o2, e2 = sh(_cc(san, ([] if shim else ['-DC06_STRESS']) + ['-o', exe, os.path.join(VERIF, 'harness', 'thpool_harness.c'), obj]
                        + [os.path.join(REPO, s) for s in LIB_SRCS]), timeout=600)
    try:
        os.unlink(obj)
    except OSError:
        pass
    return (exe if rc == 0 else None), o + e + o2 + e2


# ------------------------------------------------------------------------------------------------
# configurations
# ------------------------------------------------------------------------------------------------
def cfg_line(threads, flags, waitall, seed, spur, failcreate, subs):
    s = '|'.join(','.join('%d:%d' % (t, a) for t, a in su) if su else '-' for su in subs) if subs else '-'
    return 'run %d %d %d %d %d %d %s' % (threads, flags, waitall, seed, spur, failcreate, s)


def gen_configs(rng, n, big=False):
    out = []
    for i in range(n):
        flags = i % 4
        waitall = (i // 4) % 2
        threads = rng.randint(1, 4 if big else 3)
        nsub = rng.randint(0, 3 if big else 2)
        ntask = rng.randint(0, 6 if big else 4) if nsub else 0
        subs = [[] for _ in range(nsub)]
        for t in range(ntask):
            # (a value >= 100: the task submits a follow-up task, id 128 + its own, from inside the pool)
            subs[rng.randrange(nsub)].append((t, rng.randint(0, 99) + (100 if rng.random() < 0.2 else 0)))
        fail = rng.choice([0, 1, 2, 3]) if rng.random() < 0.15 else -1
        out.append(('%s%d' % ('b' if big else 'g', i), cfg_line(threads, flags, waitall, rng.randrange(1, 1 << 31), rng.choice([0, 5, 20, 40]), fail, subs)))
    return out


def parse_cfg(line):
    t = line.split()
    subs = []
    if t[7] != '-':
        for su in t[7].split('|'):
            subs.append([] if su == '-' else [tuple(int(x) for x in p.split(':')) for p in su.split(',')])
    return {'threads': int(t[1]), 'flags': int(t[2]), 'waitall': int(t[3]), 'seed': int(t[4]), 'spur': int(t[5]),
            'failcreate': int(t[6]), 'subs': subs}


# ------------------------------------------------------------------------------------------------
# the property as a monitor over one recorded trace (independent of the Lean side)
# ------------------------------------------------------------------------------------------------
class _VC(dict):
    def join(self, other):
        for k, v in other.items():
            if self.get(k, 0) < v:
                self[k] = v


def monitor(cfgline, out):
    """-> [(clause, message)].  `out` = harness output lines of the schedule.

    Race freedom is judged the way a dynamic race detector does it: vector clocks over the recorded
    schedule with synchronisation edges from mutex release->acquire, thread creation, thread exit->join,
    and the harness's own spawn (after new) / join (before free) of the submitters; two accesses to the
    same location (a field of the pool object, the task queue, the thread list), at least one a write,
    by different threads and unordered by happens-before are a race.  C11 atomics are exempt."""
    c = parse_cfg(cfgline)
    v = []
    args, addret, pending = {}, {}, {}
    started, ended, runner = {}, set(), {}
    running = 0
    workers = set()
    free_ret_seen = destroyed = saw_end = False
    # happens-before
    vc = {0: _VC({0: 1})}
    lock_vc = _VC()
    new_ret_vc = None
    exit_vc = {}
    sub_last = {}
    last_w, reads = {}, {}
    raced = set()

    def clock(t):
        if t not in vc:
            vc[t] = _VC({t: 1})
            if t not in workers and new_ret_vc is not None:
                vc[t].join(new_ret_vc)          # submitters are spawned by thread 0 right after new returned
        return vc[t]

    def access(t, loc, write, k, what):
        me = clock(t)
        w = last_w.get(loc)
        bad = None
        if w and w[0] != t and me.get(w[0], 0) < w[1]:
            bad = w
        if write and not bad:
            for rt, rc in reads.get(loc, {}).items():
                if rt != t and me.get(rt, 0) < rc:
                    bad = (rt, rc, 'read'); break
        if bad and loc not in raced:
            raced.add(loc)
            v.append(('race', 'data race on %s: T%d %s it (event %d) concurrently with an access by T%d - no lock/create/join orders them'
                      % (what, t, 'writes' if write else 'reads', k, bad[0])))
        if write:
            last_w[loc] = (t, me[t]); reads[loc] = {}
        else:
            reads.setdefault(loc, {})[t] = me[t]

    for k, ln in enumerate(out):
        if ln.startswith('cfg ') or ln.startswith('# '):
            continue
        if ln.startswith('FAULT'):
            kind = 'deadlock' if ('deadlock' in ln or 'relock' in ln) else ('after_free' if 'use-after' in ln else 'fault')
            v.append((kind, '%s (event %d)' % (ln, k)))
            return v
        if ln.startswith('end '):
            saw_end = True
            m = re.search(r'live=(-?\d+)', ln)
            if m and int(m.group(1)) != 0:
                v.append(('discarded_freed', '%s allocations outstanding after free returned (tasks that never started must be discarded)' % m.group(1)))
            continue
        t = ln.split()
        if len(t) < 2 or not t[0].startswith('T'):
            v.append(('fault', 'unparsable line %r' % ln)); return v
        tid, ev = int(t[0][1:]), t[1]
        me = clock(tid)
        if ev == '@':
            continue
        if ev == '.':
            if t[2] != 'a':
                access(tid, 'pool+' + t[3], t[2] == 'w', k, 'the pool field at offset ' + t[3])
            continue
        if free_ret_seen and tid in workers and ev != 'exit':
            v.append(('after_free', 'pool thread T%d performs %r after free returned (event %d)' % (tid, ' '.join(t[1:]), k)))
        elif destroyed and tid in workers and ev != 'exit':
            v.append(('after_free', 'pool thread T%d performs %r after the pool primitives were destroyed (event %d)' % (tid, ' '.join(t[1:]), k)))
        if ev == 'lock' or ev == 'wake':
            me.join(lock_vc)
        elif ev in ('unlock', 'wait'):
            lock_vc = _VC(me); me[tid] += 1
        elif ev == 'create':
            j = int(t[2][1:])
            workers.add(j)
            vc[j] = _VC(me); vc[j][j] = 1; me[tid] += 1
            if len(workers) > c['threads']:
                v.append(('max_threads', '%d pool threads created, max_threads is %d' % (len(workers), c['threads'])))
        elif ev == 'exit':
            exit_vc[tid] = _VC(me)
        elif ev == 'join':
            j = int(t[2][1:])
            me.join(exit_vc.get(j, {}))
            access(tid, 'threads', False, k, 'the thread list')
        elif ev in ('enq', 'deq', 'qfree'):
            access(tid, 'tasks', True, k, 'the task queue')
            if ev == 'deq' and t[2] == '-':
                v.append(('exec_once', 'T%d dequeues from an empty queue (event %d)' % (tid, k)))
        elif ev == 'qlen':
            access(tid, 'tasks', False, k, 'the task queue')
        elif ev in ('tins', 'tfree'):
            access(tid, 'threads', True, k, 'the thread list')
        elif ev == 'tlen':
            access(tid, 'threads', False, k, 'the thread list')
        elif ev == 'new_ret':
            new_ret_vc = _VC(me); me[tid] += 1
        elif ev == 'add_call':
            args[int(t[2])] = int(t[3]); pending[tid] = int(t[2])
        elif ev == 'add_ret':
            if tid in pending:
                addret[pending.pop(tid)] = int(t[2])
            sub_last[tid] = _VC(me); me[tid] += 1
        elif ev == 'free_call':
            for sv in sub_last.values():       # the harness joins the submitters before it calls free
                me.join(sv)
        elif ev == 'task_start':
            task, a = int(t[2]), int(t[3])
            if task in started:
                v.append(('exec_once', 'task %d started twice (events %d and %d)' % (task, started[task], k)))
            if task not in args:
                v.append(('exec_once', 'task %d runs but was never submitted (event %d)' % (task, k)))
            elif args[task] != a:
                v.append(('own_arg', 'task %d runs with argument %d, submitted with %d (event %d)' % (task, a, args[task], k)))
            started[task] = k; runner[task] = tid
            running += 1
            if running > c['threads']:
                v.append(('max_threads', '%d tasks running at once, max_threads is %d (event %d)' % (running, c['threads'], k)))
            if free_ret_seen:
                v.append(('never_run_after', 'task %d starts after free returned (event %d)' % (task, k)))
        elif ev == 'task_end':
            task = int(t[2])
            if task not in started or task in ended or runner.get(task) != tid:
                v.append(('exec_once', 'task_end %d without a matching start by T%d (event %d)' % (task, tid, k)))
            ended.add(task); running -= 1
        elif ev == 'destroy' or (ev == 'free' and t[2] == 'pool'):
            destroyed = True
        elif ev == 'free_ret':
            free_ret_seen = True
            acc = [x for x, r in addret.items() if r == 0]
            if c['waitall']:
                miss = [x for x in acc if x not in ended]
                if miss:
                    v.append(('free_waitall', 'free(wait_all) returned while accepted task(s) %s had not run to completion' % miss))
            else:
                miss = [x for x in started if x not in ended]
                if miss:
                    v.append(('free_waitcurr', 'free(!wait_all) returned while started task(s) %s were still running' % miss))
            if pending:
                v.append(('precondition', 'harness error: free called while an add was in progress'))
    if not saw_end:
        v.append(('fault', 'schedule did not terminate (no end line)'))
    for task in started:
        if addret.get(task, 0) != 0:
            v.append(('exec_once', 'task %d ran although its add was refused with %d' % (task, addret[task])))
    return v


def trace_stats(out):
    tids = []
    for ln in out:
        if ln.startswith('T'):
            w = ln.split()
            if w[1] not in ('.', '@'):
                tids.append(w[0])
    switches = sum(1 for a, b in zip(tids, tids[1:]) if a != b)
    return {'events': len(tids), 'switches': switches, 'threads': len(set(tids)),
            'spurious': sum(1 for l in out if l.endswith('wake spurious')),
            'tasks_run': sum(1 for l in out if ' task_start ' in l)}


def max_concurrency(out):
    cur = mx = 0
    for l in out:
        if ' task_start ' in l:
            cur += 1; mx = max(mx, cur)
        elif ' task_end ' in l:
            cur -= 1
    return mx


# ------------------------------------------------------------------------------------------------
# running
# ------------------------------------------------------------------------------------------------
def run_harness(exe, cfgs, tag, tsan=False):
    """cfgs = [(id, cfgline)] -> ({id: [lines]}, stderr)"""
    os.makedirs(os.path.join(WORK, 'run'), exist_ok=True)
    res, errs = {}, []
    chunks = [cfgs[i::8] for i in range(8)] if len(cfgs) > 400 else [cfgs]
    procs = []
    e = dict(os.environ)
    e['ASAN_OPTIONS'] = 'detect_leaks=0:abort_on_error=0:exitcode=97'
    e['UBSAN_OPTIONS'] = 'print_stacktrace=1:halt_on_error=1:exitcode=98'
    e['TSAN_OPTIONS'] = 'exitcode=66:halt_on_error=1:second_deadlock_stack=1'
    for n, ch in enumerate(chunks):
        if not ch:
            continue
        path = os.path.join(WORK, 'run', '%s_%d_%d.ops' % (tag, os.getpid(), n))
        with open(path, 'w') as f:
            for sid, line in ch:
                f.write('# %s\n%s\n' % (sid, line))
        procs.append((path, subprocess.Popen([exe, path], stdout=subprocess.PIPE, stderr=subprocess.PIPE, text=True, env=e)))
    for path, p in procs:
        try:
            o, er = p.communicate(timeout=1500)
        except subprocess.TimeoutExpired:
            p.kill()
            o, er = p.communicate()
            o += '\nFAULT harness-timeout\n'
        res.update(vlib.split_outputs(o))
        errs.append(er)
        os.unlink(path)
    return res, '\n'.join(errs)


def run_driver(traces):
    """traces = [(id, [lines])] -> {id: [driver lines]} or None when the driver is missing"""
    if not os.path.exists(driver_exe()):
        return None
    txt = []
    for sid, lines in traces:
        txt.append('# %s' % sid)
        txt.extend(l for l in lines if not l.startswith('#'))
    rc, out, err = sh([driver_exe(), MODEL], input='\n'.join(txt) + '\n', timeout=1500)
    return vlib.split_outputs(out)


def judge_model(dl):
    """driver lines -> (accepted: bool, why, model-monitor failures)"""
    if not dl:
        return False, 'no driver output', []
    acc = dl[0] == 'accepted'
    bad = [l for l in dl[1:] if l.startswith('monitor ') and not l.endswith(' ok')]
    return acc, dl[0], bad


def corpus():
    out = []
    d = os.path.join(VERIF, 'corpus', ID)
    if os.path.isdir(d):
        for f in sorted(os.listdir(d)):
            if f.endswith('.ops'):
                for n, l in enumerate(x for x in open(os.path.join(d, f)).read().splitlines() if x.startswith('run ')):
                    out.append(('corpus:%s:%d' % (f, n), l))
    return out


def stress_configs(rng, n):
    out = []
    for i in range(n):
        nsub = rng.randint(1, 4)
        subs = [[] for _ in range(nsub)]
        for t in range(rng.randint(1, 64)):
            subs[rng.randrange(nsub)].append((t, rng.randint(0, 3) + (100 if rng.random() < 0.2 else 0)))
        out.append(('st%d' % i, cfg_line(rng.randint(1, 8), i % 4, (i // 4) % 2, 1, 0, -1, subs)))
    return out


def judge_stress(cfgline, out):
    c = parse_cfg(cfgline)
    v = []
    if not out or not out[-1].startswith('stress '):
        return [('fault', 'stress scenario died: %s' % (out[-1] if out else 'no output'))]
    kv = dict(x.split('=') for x in out[-1].split()[1:] if '=' in x)
    if int(kv.get('twice', 0)):
        v.append(('exec_once', '%s task(s) executed more than once' % kv['twice']))
    if int(kv.get('wrong_arg', 0)):
        v.append(('own_arg', 'a task ran with a foreign argument'))
    if int(kv.get('missing', 0)):
        v.append(('free_waitall', '%s accepted task(s) had not run when free(wait_all) returned' % kv['missing']))
    if int(kv.get('running_at_return', 0)):
        v.append(('free_waitcurr', 'a task was still running when free returned'))
    if int(kv.get('max_running', 0)) > c['threads']:
        v.append(('max_threads', '%s tasks ran concurrently, max_threads=%d' % (kv['max_running'], c['threads'])))
    if int(kv.get('live', 0)):
        v.append(('discarded_freed', '%s allocations outstanding' % kv['live']))
    return v


# ------------------------------------------------------------------------------------------------
def replay(rep, path, exe, driver_ok):
    j = json.load(open(path))
    cfgline = j['config']
    print(json.dumps({k: v for k, v in j.items() if k != 'trace'}, indent=1))
    impl, err = run_harness(exe, [('replay', cfgline)], 'replay')
    out = impl.get('replay', ['<no output>'])
    same = (out == j.get('trace'))
    print('--- configuration'); print(cfgline)
    print('--- trace of this run (%s the recorded one)' % ('identical to' if same else 'DIFFERS from'))
    print('\n'.join(out))
    if err.strip():
        print('--- sanitizer/stderr'); print(err[-3000:])
    sv = monitor(cfgline, out)
    for c, m in sv:
        print('SPEC-VIOLATION %s: %s' % (c, m))
    acc, bad = True, []
    if driver_ok:
        d = run_driver([('replay', out)])
        acc, why, bad = judge_model((d or {}).get('replay'))
        print('--- model: %s' % why)
        for b in bad:
            print('MODEL-%s' % b)
    if sv or bad or (STRICT and not acc):
        print('VIOLATION property=%s replay=%s' % (ID, path))
        return 1
    if not acc:
        print('NOTE: the trace is not a behaviour of the Lean model (the code no longer follows the modelled statement structure); no clause of the property is violated on it')
    return 0


def main(tier, seed, replay_path):
    rep = Report(ID, tier, seed)
    rng = random.Random(seed * 1000003 + 6)
    ps = proof_stage(rep, PROPS_MODULE, PROPS_FILE, None)
    broken = ps['broken']
    rep.cov['trusted_base'] = vlib.TRUSTED_BASE + [
        'C06 tie B is trace acceptance: harness/sched_shim.h replaces the pthread_* calls and the queue/list accessors inside thpool.c by '
        'scheduling points of a cooperative scheduler (harness/thpool_harness.c); POSIX semantics of mutex/condvar/join as encoded in Lm/Thpool.lean; '
        'plain loads/stores of thpool.c are seen through compiler instrumentation (-fsanitize=thread pass, entry points provided by the harness): '
        'their position is a scheduling point and feeds the happens-before race detector of the monitor, but which field is accessed is not matched '
        'against the model (the model fires the pending internal steps of that thread there); real threads + the TSan runtime in the thorough tier']
    t0 = time.time()
    exe, log = build(True)
    if exe is None:
        rep.infra_error = 'thpool.c does not compile under the scheduler shim: ' + log[-1500:]
        return rep.finish()
    rep.notes.append('shim harness build: %.1fs' % (time.time() - t0))
    try:
        if replay_path:
            return replay(rep, replay_path, exe, ps['driver_ok'])
        return check(rep, rng, tier, seed, exe, ps, broken)
    finally:
        for f in (exe,):
            try:
                os.unlink(f)
            except OSError:
                pass


def check(rep, rng, tier, seed, exe, ps, broken):
    n = 2000 if tier == "quick" else 24000
    cfgs = corpus() + gen_configs(rng, n) + (gen_configs(rng, n // 6, big=True) if tier != 'quick' else [])
    rep.cov['rule'] = RULE
    t0 = time.time()
    impl, err = run_harness(exe, cfgs, ID)
    rep.notes.append('schedules run: %.1fs' % (time.time() - t0))
    t0 = time.time()
    # (schedules in which a task submits a follow-up task from inside the pool are counted: the Lean transition system
    # has the m_thpool_add of a worker as program counters of its own)
    nested_cfgs = set(sid for sid, line in cfgs if any(a >= 100 for su in parse_cfg(line)['subs'] for _, a in su))
    rep.cov['schedules_with_tasks_submitting_tasks'] = len(nested_cfgs)
    nested = set()
    model = run_driver([(sid, impl.get(sid, [])) for sid, _ in cfgs if sid not in nested]) if ps['driver_ok'] else None
    rep.notes.append('trace acceptance by lmdriver: %.1fs' % (time.time() - t0))

    seen = set()
    per_flavour = collections.Counter()
    spur = 0
    maxconc = 0
    hits = collections.OrderedDict()     # clause -> (sid, cfgline, out, msg)
    rejected = []
    model_bad = []
    fails_injected = 0
    for sid, line in cfgs:
        out = impl.get(sid, ['<no output>'])
        sv = monitor(line, out)
        st = trace_stats(out)
        c = parse_cfg(line)
        rep.cov['evaluations'] += 1
        per_flavour['%s/%s' % (FLAVOURS[c['flags']], 'wait_all' if c['waitall'] else 'wait_curr')] += 1
        spur += st['spurious']
        maxconc = max(maxconc, max_concurrency(out))
        fails_injected += sum(1 for l in out if l.endswith('create_fail'))
        h = vlib.script_hash(out)
        if h not in seen and st['switches'] >= 4 and st['tasks_run'] >= 1 and st['threads'] >= 3:
            rep.cov['distinct_nontrivial'] += 1
        seen.add(h)
        for cl, msg in sv:
            hits.setdefault(cl, (sid, line, out, msg))
        if model is not None and sid not in nested:
            acc, why, bad = judge_model(model.get(sid))
            if not acc:
                rejected.append((sid, line, out, why))
            for b in bad:
                model_bad.append((sid, line, out, b))
    rep.cov['schedules_per_flavour'] = dict(per_flavour)
    rep.cov['spurious_wakeups_injected'] = spur
    rep.cov['pthread_create_failures_injected'] = fails_injected
    rep.cov['max_concurrency_seen'] = maxconc
    rep.cov['traces_accepted_by_model'] = (len(cfgs) - len(nested) - len(rejected)) if model is not None else 0
    rep.cov['traces_rejected_by_model'] = len(rejected)
    rep.cov['samples'] = [{'id': sid, 'config': line, 'trace': impl.get(sid, [])[:60]} for sid, line in cfgs[len(corpus()):len(corpus()) + 2]]
    rep.cov['exhaustive'] = False

    # ---- thorough: real threads under TSan, no shim ----
    if tier != 'quick':
        t0 = time.time()
        texe, tlog = build(False)
        if texe is None:
            rep.notes.append('TSan build failed: ' + tlog[-400:])
        else:
            scfg = stress_configs(rng, 240)
            sout, serr = run_harness(texe, scfg, ID + 'tsan', tsan=True)
            nrace = serr.count('WARNING: ThreadSanitizer')
            rep.cov['tsan_runs'] = len(scfg)
            rep.cov['tsan_reports'] = nrace
            for sid, line in scfg:
                o = sout.get(sid, [])
                for cl, msg in judge_stress(line, o):
                    if cl == 'fault' and nrace:
                        cl, msg = 'race', 'ThreadSanitizer report with real threads: ' + (re.search(r'WARNING: ThreadSanitizer: ([^\n]*)', serr).group(1))
                    hits.setdefault(cl, (sid, line, o + ['--- stderr'] + serr.splitlines()[:60], msg + ' [real threads, TSan build]'))
            os.unlink(texe)
            rep.notes.append('TSan stress: %.1fs' % (time.time() - t0))

    # ---- verdicts ----
    for nn, (cl, (sid, line, out, msg)) in enumerate(list(hits.items())[:4]):
        p = save_replay(ID, 'spec_%s_%d.json' % (cl, nn), {'property': ID, 'clause': cl, 'what': msg, 'config': line,
                        'seed': parse_cfg(line)['seed'], 'found_in': sid, 'check_seed': seed, 'trace': out})
        rep.violation(p, 'clause %s violated by the implementation: %s' % (cl, msg), True)
    if model_bad and not hits:
        sid, line, out, b = model_bad[0]
        p = save_replay(ID, 'model_monitor_0.json', {'property': ID, 'clause': 'model-monitor', 'what': b, 'config': line,
                        'seed': parse_cfg(line)['seed'], 'found_in': sid, 'trace': out})
        rep.violation(p, 'the model-side monitor rejects an accepted implementation trace: %s' % b, True)
    if rejected and not hits:
        sid, line, out, why = rejected[0]
        p = save_replay(ID, 'correspondence_0.json', {'property': ID, 'broken': 'trace acceptance by lmdriver thpool', 'what': why,
                        'config': line, 'seed': parse_cfg(line)['seed'], 'found_in': sid, 'rejected_traces': len(rejected), 'trace': out})
        txt = ('%d of %d recorded traces are not behaviours of the Lean model (first: %s, %s); the python monitor found no violated clause'
               % (len(rejected), len(cfgs), sid, why))
        if STRICT:
            rep.violation(p, txt, False)
        else:
            rep.notes.append({'correspondence_lost': txt, 'replay': p})
            print('NOTE: ' + txt + ' — theorems no longer cover the changed code; verdict rests on the sampled monitor; replay=%s' % p)
    if broken:
        if not hits:
            p = save_replay(ID, 'obligation_0.json', {'broken': broken, 'seed': seed, 'searched_schedules': len(cfgs),
                                                     'note': 'no failing schedule found by the search'})
            rep.violation(p, 'proof obligation no longer checks: %s' % broken[0]['what'], False)
        else:
            rep.notes.append({'broken_obligations': broken})
    return rep.finish()
