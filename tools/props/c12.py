"""C12 — queue, stack, list keep their order discipline under all ops and iterators."""
import os, sys, itertools
ID = 'C12'
MODEL = 'chain'
PROPS_MODULE = 'Lm.Props.C12'
PROPS_FILE = 'Lm/Props/C12.lean'
HARNESS_NAME = 'struct_harness'
HARNESS_SRC = 'struct_harness.c'
LIB_SRCS = ['Lib/structs/queue.c', 'Lib/structs/stack.c', 'Lib/structs/list.c', 'Lib/utils/mem.c', 'Lib/utils/log.c']
RULE = ('one container per script (queue | stack | list, with/without destructor, list with/without the asymmetric comparator key%8 = (element/8)%8); '
        'random scripts over enq/deq/push/pop/ins/rm/find/peek/len/clear/free/iterate and it new/next/get/set/rm/ins, '
        'generated so that while an iterator is live the container is modified only through it or by enqueue (iterator '
        'invalidation rule; free abandons it), with NULL data, NULL handles (after free) and NULL iterators mixed in; plus ALL such '
        'sequences of mutating ops up to the exhaustive bound followed by every observer; non-trivial = an iterator op '
        'or a removal acted on a non-empty container')
# exhaustive bound: number of ops after `new` (observers only in the last position, see exhaustive())
EXHAUSTIVE = {'quick': {'queue': 6, 'stack': 6, 'list': 5}, 'thorough': {'queue': 8, 'stack': 7, 'list': 6}}

KINDS = ('queue', 'stack', 'list')
MUT = {'queue': ('enq', 'deq', 'rm', 'clear'), 'stack': ('push', 'pop', 'rm', 'clear'), 'list': ('ins', 'rm', 'clear')}
# calls that invalidate a live iterator (m_queue_enqueue only appends behind the last node: it does not)
INVALIDATES = {'queue': ('deq', 'rm', 'clear'), 'stack': ('push', 'pop', 'rm', 'clear'), 'list': ('ins', 'rm', 'clear')}


def cmp_eq(a, b):
    """the harness's comparator as a test: first argument the caller's data, second the list element - deliberately not
    symmetric (a heterogeneous lookup: the key's low three bits against bits 3..5 of the element)"""
    return a % 8 == (b // 8) % 8


# --------------------------------------------------------------------------------------------------
# Sim: what the (fixed) C code does, on an array with a cursor.  Used ONLY to generate scripts that
# respect the API precondition and to decide `wellformed`; the oracle below does not use it.
# --------------------------------------------------------------------------------------------------
class Sim:
    def __init__(self, kind, dtor, cmp):
        self.kind, self.dtor, self.cmp = kind, dtor, cmp
        self.arr = []
        self.alive = True
        self.it = None          # [pos, removed, diff]

    def live_itr(self):
        return self.it is not None

    def match(self, v, x):
        return (self.cmp and cmp_eq(v, x)) or x == v

    def op(self, t):
        """apply one (parsed) op; returns False if the line is not an op of this kind"""
        k, a = self.kind, self.arr
        o = t[0]
        if o == 'it':
            if len(t) < 2:
                return False
            s = t[1]
            if s == 'new' and len(t) == 2:
                self.it = [0, False, 0] if self.alive and a else None
            elif s == 'next' and len(t) == 2:
                if self.it:
                    p, rem, d = self.it
                    if k == 'list':
                        if p < len(a) and d >= 0:
                            p = min(p + d + 1, len(a))
                        rem, d = False, 0
                    else:
                        if not rem:
                            p += 1
                        rem = False
                    self.it = [p, rem, d] if p < len(a) else None
            elif s == 'get' and len(t) == 2:
                pass
            elif s == 'set' and len(t) == 3:
                v = int(t[2])
                if self.it and v and not self.it[1] and self.it[0] < len(a):
                    a[self.it[0]] = v
            elif s == 'rm' and len(t) == 2:
                if self.it and not self.it[1] and self.it[0] < len(a):
                    a.pop(self.it[0])
                    if k == 'list':
                        self.it[2] -= 1
                    else:
                        self.it[1] = True
            elif s == 'ins' and len(t) == 3 and k == 'list':
                v = int(t[2])
                if self.it and v:
                    a.insert(self.it[0], v)
                    self.it[2] += 1
            else:
                return False
            return True
        if o in ('len', 'peek', 'find', 'iterate'):
            if o == 'peek' and k == 'list' or o == 'find' and k != 'list':
                return False
            return True
        if o == 'free' and len(t) == 1:
            self.alive = False; self.arr = []; self.it = None
            return True
        if not self.alive:
            return o in MUT[k]
        if o == 'clear' and len(t) == 1:
            del a[:]
        elif k == 'queue' and o == 'enq' and len(t) == 2:
            if int(t[1]):
                a.append(int(t[1]))
        elif k == 'stack' and o == 'push' and len(t) == 2:
            if int(t[1]):
                a.insert(0, int(t[1]))
        elif k in ('queue', 'stack') and o in ('deq', 'pop', 'rm') and len(t) == 1:
            if (o == 'deq') == (k == 'queue') or o == 'rm':
                if a:
                    a.pop(0)
            else:
                return False
        elif k == 'list' and o == 'ins' and len(t) == 2:
            v = int(t[1])
            if v:
                i = 0
                if self.cmp:
                    i = next((j for j, x in enumerate(a) if cmp_eq(v, x)), len(a))
                a.insert(i, v)
        elif k == 'list' and o == 'rm' and len(t) == 2:
            v = int(t[1])
            if v:
                i = next((j for j, x in enumerate(a) if self.match(v, x)), None)
                if i is not None:
                    a.pop(i)
        else:
            return False
        return True


def parse_new(line):
    t = line.split()
    if len(t) == 4 and t[0] == 'new' and t[1] in KINDS and t[2] in ('0', '1') and t[3] in ('0', '1'):
        return t[1], t[2] == '1', t[3] == '1'
    return None


def wellformed(lines):
    """API precondition: the script creates its container first, and while an iterator is live the
    container is modified only through the iterator or, for a queue, by enqueue (`free` abandons the
    iterator)."""
    if not lines:
        return False
    hd = parse_new(lines[0])
    if not hd:
        return False
    sim = Sim(*hd)
    for ln in lines[1:]:
        t = ln.split()
        try:
            if not t or t[0] == 'new':
                return False
            if t[0] in INVALIDATES[sim.kind] and sim.live_itr():
                return False
            if not sim.op(t):
                return False
        except ValueError:
            return False
    return True


# --------------------------------------------------------------------------------------------------
# generators
# --------------------------------------------------------------------------------------------------
def random_script(rng, n_ops):
    kind = rng.choice(KINDS)
    dtor = rng.random() < 0.7
    cmp = kind == 'list' and rng.random() < 0.6
    lines = ['new %s %d %d' % (kind, dtor, cmp)]
    sim = Sim(kind, dtor, cmp)
    pool = [1, 2, 3, 4, 5, 9, 10, 11, 17, 18, 25, 33] if kind == 'list' else list(range(1, 30))
    add = {'queue': 'enq', 'stack': 'push', 'list': 'ins'}[kind]
    grow = rng.random() < 0.5      # phases of growth make long chains for the iterators
    for _ in range(n_ops):
        r = rng.random()
        v = rng.choice(pool) if rng.random() > 0.03 else 0
        if sim.live_itr():
            # iterator phase: only iterator ops and observers (and rarely free = abandon)
            if r < 0.40: ln = 'it next'
            elif r < 0.55: ln = 'it rm'
            elif r < 0.65: ln = 'it set %d' % v
            elif r < 0.75: ln = 'it get'
            elif r < 0.85 and kind == 'list': ln = 'it ins %d' % v
            elif r < 0.83 and kind == 'queue': ln = 'enq %d' % v
            elif r < 0.88: ln = 'it new'
            elif r < 0.90: ln = 'free'
            elif r < 0.93: ln = 'len'
            elif r < 0.96: ln = 'iterate' if rng.random() < 0.5 else 'iterate %d' % rng.randrange(0, 4)
            elif kind == 'list': ln = 'find %d' % v
            else: ln = 'peek'
        else:
            p_add = 0.55 if grow else 0.30
            if r < p_add: ln = '%s %d' % (add, v)
            elif r < p_add + 0.12:
                ln = {'queue': 'deq', 'stack': 'pop', 'list': 'rm %d' % (rng.choice(sim.arr) if sim.arr and rng.random() < 0.7 else v)}[kind]
            elif r < p_add + 0.18:
                ln = 'rm' if kind != 'list' else 'rm %d' % v
            elif r < p_add + 0.30: ln = 'it new'
            elif r < p_add + 0.33: ln = rng.choice(['it next', 'it get', 'it rm', 'it set %d' % v] + (['it ins %d' % v] if kind == 'list' else []))
            elif r < p_add + 0.36: ln = 'clear'
            elif r < p_add + 0.375: ln = 'free'
            elif r < p_add + 0.41: ln = 'len'
            elif r < p_add + 0.44: ln = 'iterate' if rng.random() < 0.5 else 'iterate %d' % rng.randrange(0, 4)
            elif kind == 'list': ln = 'find %d' % (rng.choice(sim.arr) if sim.arr and rng.random() < 0.6 else v)
            else: ln = 'peek'
            if rng.random() < 0.08:
                grow = not grow
        ok = sim.op(ln.split())
        assert ok, ln
        lines.append(ln)
    return lines


def exhaustive(kind, dtor, cmp, depth, vals):
    """ALL well-formed op sequences of `depth` ops: `depth - 1` state-changing ops followed by every op
    (observers included).  Observers do not change the state, so placing them only last loses nothing
    (every shorter sequence is a prefix of an enumerated one and is checked op by op).  Iterator ops on
    a NULL iterator handle and calls on a NULL container handle (after free) are pure guard tests and
    are enumerated in the last position only.
    Queue and stack never look at the user pointers, so the k-th insertion uses the value k (distinct
    values make the order visible; nothing is lost).  The list compares pointers and calls the
    comparator, so its insertions / removals / finds range over all of `vals`."""
    add = {'queue': 'enq', 'stack': 'push', 'list': 'ins'}[kind]
    take = {'queue': ['deq', 'rm'], 'stack': ['pop', 'rm'], 'list': ['rm %d' % v for v in vals]}[kind]
    it_ops = ['it next', 'it rm', 'it set %d' % (vals[-1] if kind == 'list' else 7)] + (['it ins %d' % vals[0]] if kind == 'list' else [])
    observers = ['len', 'iterate', 'it get'] + (['find %d' % v for v in vals] if kind == 'list' else ['peek'])
    head = 'new %s %d %d' % (kind, dtor, cmp)
    out = []

    def rec(prefix, sim, left, nadd):
        adds = ['%s %d' % (add, v) for v in vals] if kind == 'list' else ['%s %d' % (add, nadd + 1)]
        live = sim.live_itr()
        if live:
            cand = it_ops + ['it new', 'free'] + (adds if kind == 'queue' else [])
        elif sim.alive:
            cand = adds + take + ['clear', 'free', 'it new']
        else:
            cand = []          # after free every call is a NULL-handle guard: last position only
        if left == 1 or not cand:
            last = cand + observers + ([] if live else it_ops) + ([] if sim.alive else [adds[0], take[0], 'clear', 'free', 'it new'])
            for ln in last:
                out.append(prefix + [ln])
            return
        for ln in cand:
            s2 = Sim(sim.kind, sim.dtor, sim.cmp)
            s2.arr = list(sim.arr); s2.alive = sim.alive; s2.it = list(sim.it) if sim.it else None
            s2.op(ln.split())
            rec(prefix + [ln], s2, left - 1, nadd + (1 if ln.startswith(add + ' ') else 0))

    rec([head], Sim(kind, dtor, cmp), depth, 0)
    return out


def scripts(rng, tier):
    out = []
    n = 0
    for kind in KINDS:
        depth = EXHAUSTIVE[tier][kind]
        vals = [1, 2, 9]
        confs = [(True, True), (True, False)] if kind == 'list' else [(True, False)]
        for dtor, cmp in confs:
            for ls in exhaustive(kind, dtor, cmp, depth, vals):
                out.append(('ex:%d' % n, ls)); n += 1
        # without destructor the control flow differs only in the destructor calls: one level less
        for ls in exhaustive(kind, False, kind == 'list', depth - 1, vals):
            out.append(('ex:%d' % n, ls)); n += 1
    nrand = 1500 if tier == 'quick' else 30000
    for i in range(nrand):
        out.append(('rnd:%d' % i, random_script(rng, rng.randrange(5, 60 if tier == 'quick' else 200))))
    return out


# --------------------------------------------------------------------------------------------------
# spec: the property as an array-model oracle over the implementation's output (independent of Sim
# and of the Lean model).  Demands what the property text states and nothing else:
#   fifo/lifo   enqueue appends / push prepends, dequeue/pop/peek/remove act on the first element
#   list        insert adds one element somewhere and keeps the relative order of the others; find and
#               remove hit the first element with cmp == 0 or the same pointer
#   len         every length reported (m_*_len after every op) is the number of elements
#   iter        an iterator / m_*_iterate yields the elements in container order, each remaining one
#               exactly once; get/set/remove act on the current element
#   dtor        destructor exactly once per element dropped by remove/clear/free/itr_remove, never else
#   fault       no crash / sanitizer report
# Unspecified situations (NULL data, NULL handles, iterator ops with no current element, position of
# an insertion) are accepted as long as the content stays consistent.
# --------------------------------------------------------------------------------------------------
def one_insert_positions(old, new, v):
    """positions j with old[:j] + [v] + old[j:] == new"""
    if len(new) != len(old) + 1:
        return []
    return [j for j in range(len(new)) if new[j] == v and new[:j] == old[:j] and new[j + 1:] == old[j:]]


def spec(lines, out):
    v = []
    hd = parse_new(lines[0]) if lines else None
    if not hd:
        return v
    kind, dtor, cmp = hd
    pos = [0]

    def block():
        """output lines of one op: ([dtor values], cb or None, result, cur or None, seq values, len)"""
        dt, cb, res, cur = [], None, None, None
        while pos[0] < len(out):
            ln = out[pos[0]]; pos[0] += 1
            if ln.startswith('dtor '): dt.append(int(ln[5:]))
            elif ln.startswith('cb'): cb = [int(x) for x in ln.split()[1:]]
            elif ln.startswith('= '): res = ln[2:]
            elif ln.startswith('cur '): cur = ln[4:]
            elif ln.startswith('seq'):
                body, _, ln_ = ln[3:].partition(';')
                return dt, cb, res, cur, [int(x) for x in body.split()], int(ln_.split()[1])
            else:
                return None       # FAULT, bad-op, anything unexpected
        return None

    b = block()
    if b is None or b[2] != 'ok' or b[4] != [] or b[5] != 0:
        v.append(('fault', 'new failed: %s' % (out[:3],)))
        return v
    arr = []
    alive = True
    cands = None       # live iterator: set of (n_todo, has_cur); None = no iterator

    def isfail(res):
        return res == 'nil' or (res.lstrip('-').isdigit() and int(res) < 0)

    for ln in lines[1:]:
        t = ln.split()
        b = block()
        if b is None:
            v.append(('fault', 'crash / sanitizer report / no output at `%s`' % ln))
            return v
        dt, cb, res, cur, seq, ln_n = b
        if res is None:
            v.append(('fault', 'no result for `%s`' % ln)); return v
        exp_dt = []           # destructor calls the property demands for this op
        any_order = False
        new_arr = arr
        o = t[0]
        val = int(t[-1]) if len(t) >= 2 and t[-1].isdigit() else None
        if not alive:
            # NULL handle: nothing to demand except that nothing happens
            if o == 'it' and t[1] == 'new':
                cands = None
            new_arr = []
        elif o in ('enq', 'push', 'ins') and len(t) == 2:
            if val == 0:
                new_arr = seq if (seq == arr) else arr          # NULL data: must not change anything
            elif res != '0':
                v.append(('fifo' if kind != 'list' else 'list', '`%s` failed: %s' % (ln, res)))
            elif kind == 'queue':
                new_arr = arr + [val]
                if cands is not None:
                    cands = set((td + 1, ci) for td, ci in cands)
            elif kind == 'stack': new_arr = [val] + arr
            else:
                if not one_insert_positions(arr, seq, val):
                    v.append(('list', '`%s`: content %s -> %s is not "one element added, others keep their order"' % (ln, arr, seq)))
                new_arr = seq
        elif o in ('deq', 'pop') and kind != 'list':
            if arr:
                if res != str(arr[0]):
                    v.append(('fifo' if kind == 'queue' else 'lifo', '`%s` returned %s, content was %s' % (ln, res, arr)))
                new_arr = arr[1:]
            elif res != 'nil':
                v.append(('fifo' if kind == 'queue' else 'lifo', '`%s` on an empty container returned %s' % (ln, res)))
        elif o == 'peek' and kind != 'list':
            if res != (str(arr[0]) if arr else 'nil'):
                v.append(('fifo' if kind == 'queue' else 'lifo', '`peek` returned %s, content was %s' % (res, arr)))
        elif o == 'rm' and kind != 'list' and len(t) == 1:
            if arr:
                if res != '0':
                    v.append(('fifo' if kind == 'queue' else 'lifo', '`rm` failed (%s) on %s' % (res, arr)))
                exp_dt = [arr[0]]; new_arr = arr[1:]
            elif not isfail(res):
                v.append(('fifo' if kind == 'queue' else 'lifo', '`rm` on an empty container returned %s' % res))
        elif o == 'rm' and kind == 'list' and len(t) == 2:
            i = None if not val else next((j for j, x in enumerate(arr) if (cmp and cmp_eq(val, x)) or x == val), None)
            if i is None:
                if not isfail(res):
                    v.append(('list', '`%s` reported success but no element of %s matches' % (ln, arr)))
            else:
                if res != '0':
                    v.append(('list', '`%s` failed (%s) although %s contains a match' % (ln, res, arr)))
                exp_dt = [arr[i]]; new_arr = arr[:i] + arr[i + 1:]
        elif o == 'find' and kind == 'list':
            i = None if not val else next((j for j, x in enumerate(arr) if (cmp and cmp_eq(val, x)) or x == val), None)
            if res != ('nil' if i is None else str(arr[i])):
                v.append(('list', '`%s` returned %s, content %s (first match: %s)' % (ln, res, arr, None if i is None else arr[i])))
        elif o == 'len':
            if res != str(len(arr)):
                v.append(('len', '`len` returned %s, content %s' % (res, arr)))
        elif o == 'clear':
            if arr and res != '0':
                v.append(('dtor', '`clear` failed (%s) on %s' % (res, arr)))
            exp_dt = list(arr); any_order = True; new_arr = []
        elif o == 'free':
            if res != '0':
                v.append(('dtor', '`free` failed (%s)' % res))
            exp_dt = list(arr); any_order = True; new_arr = []; alive = False; cands = None
        elif o == 'iterate':
            want = arr if val is None else arr[:val]
            if arr and (cb != want or res != '0'):
                v.append(('iter', '`%s` handed %s to the callback (result %s), content %s' % (ln, cb, res, arr)))
            if not arr and cb:
                v.append(('iter', '`%s` on an empty container called the callback with %s' % (ln, cb)))
        elif o == 'it':
            # live iterator = set of candidates (td, ci): td = number of elements at the end of the
            # content not yet visited, ci = index of the current element (None after it was removed)
            s = t[1]
            n = len(arr)
            if s == 'new':
                if arr:
                    if res != 'itr' or cur != str(arr[0]):
                        v.append(('iter', '`it new` on %s: result %s, first element %s' % (arr, res, cur)))
                        cands = None
                    else:
                        cands = {(n - 1, 0)}
                else:
                    if res != 'nil':
                        v.append(('iter', '`it new` on an empty container returned an iterator'))
                    cands = None
            elif cands is None:
                pass          # NULL iterator handle: nothing to demand beyond an unchanged content
            elif s == 'next':
                nc = set()
                for (td, ci) in cands:
                    if td == 0:
                        if cur is None: nc.add(None)
                    elif cur == str(arr[n - td]):
                        nc.add((td - 1, n - td))
                if res != '0' or not nc:
                    want = sorted(set('end' if td == 0 else str(arr[n - td]) for td, ci in cands))
                    v.append(('iter', '`it next` on %s moved to %s, the next element not yet visited is %s' % (arr, cur if cur is not None else 'end', '/'.join(want))))
                    cands = None
                elif None in nc:
                    cands = None
                else:
                    cands = nc
            elif s == 'get':
                nc = set((td, ci) for (td, ci) in cands if ci is None or res == str(arr[ci]))
                if not nc:
                    v.append(('iter', '`it get` returned %s, the current element of %s is %s' % (res, arr, '/'.join(str(arr[ci]) for td, ci in cands))))
                else:
                    cands = nc
            elif s == 'set':
                if val:
                    nc = set()
                    for (td, ci) in cands:
                        if ci is not None:
                            if res == '0' and seq == arr[:ci] + [val] + arr[ci + 1:]:
                                nc.add((td, ci))
                        else:
                            # no current element: unspecified; accept "failed, unchanged" or "one element replaced"
                            if (isfail(res) and seq == arr) or (res == '0' and len(seq) == n and sum(1 for x, y in zip(seq, arr) if x != y) <= 1):
                                nc.add((td, ci))
                    if not nc:
                        v.append(('iter', '`%s` (result %s): %s -> %s, the current element is at index %s' % (ln, res, arr, seq, '/'.join(str(ci) for td, ci in cands))))
                    else:
                        cands = nc
                    new_arr = seq if nc else arr
            elif s == 'rm':
                nc = set()
                acc_dt = None
                for (td, ci) in cands:
                    if ci is not None:
                        if res == '0' and seq == arr[:ci] + arr[ci + 1:]:
                            nc.add((td, None)); acc_dt = [arr[ci]]
                    else:
                        bnd = n - td
                        if isfail(res) and seq == arr:
                            nc.add((td, None)); acc_dt = acc_dt or []
                        elif res == '0' and len(seq) == n - 1:
                            for k in range(n):
                                if seq == arr[:k] + arr[k + 1:]:
                                    nc.add((td - 1, None) if k >= bnd else (td, None)); acc_dt = [arr[k]]
                if not nc:
                    v.append(('iter', '`it rm` (result %s): %s -> %s, the current element is at index %s' % (res, arr, seq, '/'.join(str(ci) for td, ci in cands))))
                    new_arr = arr
                else:
                    cands = nc; new_arr = seq; exp_dt = acc_dt or []
            elif s == 'ins' and kind == 'list':
                if val:
                    js = one_insert_positions(arr, seq, val)
                    if res != '0' or not js:
                        v.append(('list', '`%s` (result %s): %s -> %s is not "one element added, others keep their order"' % (ln, res, arr, seq)))
                    else:
                        nc = set()
                        for (td, ci) in cands:
                            bnd = n - td
                            for j in js:
                                tds = ([td] if j <= bnd else []) + ([td + 1] if j >= bnd else [])
                                cis = [None] if ci is None else [ci + (1 if j <= ci else 0), j]
                                for td2 in tds:
                                    for ci2 in cis:
                                        if ci2 is None or ci2 < n + 1 - td2:
                                            nc.add((td2, ci2))
                        cands = nc
                        new_arr = seq
        # ---- checks common to every op ----
        if not dtor:
            exp_dt = []
        if (sorted(dt) != sorted(exp_dt)) if any_order else (dt != exp_dt):
            v.append(('dtor', '`%s`: destructor called for %s, elements dropped: %s' % (ln, dt, exp_dt)))
        if seq != new_arr:
            clause = 'iter' if o == 'it' else ('list' if kind == 'list' else ('fifo' if kind == 'queue' else 'lifo'))
            v.append((clause, 'after `%s` the content is %s, expected %s' % (ln, seq, new_arr)))
            new_arr = seq          # resynchronise so that one defect is reported once
            if cands is not None and o != 'it' and o != 'enq':
                cands = None
        if alive and ln_n != len(seq):
            v.append(('len', 'after `%s` the length is %d, content %s' % (ln, ln_n, seq)))
        arr = list(new_arr)
        if v:
            return v               # the first violated clause is the finding; later ones are consequences
    return v


def project(out):
    """a crash is a crash: how the child died (signal / sanitizer exit code) is not compared"""
    res = []
    for l in out:
        if l.startswith('FAULT'):
            res.append('FAULT'); break
        res.append(l)
    return res


def nontrivial(lines, out):
    return len(lines) >= 4 and (any(o.startswith('dtor') for o in out) or any(l.startswith('it rm') or l.startswith('it set') or l.startswith('it ins') for l in lines)
                                or any(l in ('deq', 'pop') for l in lines))


def known_match(k, lines, msg):
    return False
