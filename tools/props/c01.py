"""C01 — module lifecycle state machine, callback pairing."""
from props.coreplug import *
from props import corelib
ID = 'C01'
PROPS_MODULE = 'Lm.Props.C01'
PROPS_FILE = 'Lm/Props/C01.lean'
RULE = 'random programs over ctx/reg/lifecycle/loop/pubsub with nested callback bodies'
ALPHA = ['ctx', 'reg', 'reg', 'life', 'life', 'life', 'loop', 'loop', 'ps', 'sub']


def scripts(rng, tier):
    n = 300 if tier == 'quick' else 6000
    return [('rnd:%d' % i, corelib.gen_script(rng, ALPHA, rng.randrange(5, 40))) for i in range(n)]


def spec(lines, out):
    return []


def nontrivial(lines, out):
    return any(o.startswith('INVOKE') for o in out)
