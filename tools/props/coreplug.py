"""Common settings of the core-machine plug-ins."""
from props import corelib

MODEL = 'core'
HARNESS_NAME = 'core_harness'
HARNESS_SRC = 'core_harness.c'
LIB_SRCS = ['Lib/core/ctx.c', 'Lib/core/mod.c', 'Lib/core/ps.c', 'Lib/core/evts.c', 'Lib/core/src.c', 'Lib/core/main.c',
            'Lib/core/fs/fs_noop.c', 'Lib/core/poll/epoll.c', 'Lib/core/poll/cmn_linux.c', 'Lib/structs/map.c',
            'Lib/structs/queue.c', 'Lib/structs/stack.c', 'Lib/structs/list.c', 'Lib/structs/bst.c', 'Lib/mem/mem.c',
            'Lib/thpool/thpool.c', 'Lib/utils/mem.c', 'Lib/utils/log.c', 'Lib/utils/utils.c']
HARNESS_EXTRA = ['-Wl,--wrap=pthread_setspecific,--wrap=pipe,--wrap=close,--wrap=dup,--wrap=poll_wait,--wrap=m_thpool_add,--wrap=m_thpool_free', '-lpthread', '-ldl']
DEFINES = ['LIBMODULE_LOG_CTX=CORE']
model_input = corelib.model_input
project = corelib.project_all
project_pair = corelib.project_pair
FULL_ALPHABET = ['ctx', 'reg', 'reg', 'life', 'life', 'life', 'loop', 'loop', 'ps', 'ps', 'sub', 'become', 'stash', 'batch',
                 'tb', 'fd', 'fd', 'tmr', 'srclen', 'errno', 'flags', 'prio', 'pill', 'tick', 'burst', 'foreign', 'src2', 'task']


def gen_fragments():
    """tie A of the core machine: guard prefixes of every entry point + inventory of static objects, from /repo as it is now"""
    import os, vlib, gen_core
    ch = gen_core.generate(os.path.join(vlib.LEAN, 'Lm', 'Generated'))
    return 'CoreGuards.lean, Statics.lean ' + ('changed' if ch else 'unchanged')


def wellformed(lines):
    return corelib.wellformed_core(lines)


def known_match(k, lines, msg):
    return False


def witness_programs(rep, prop):
    """known findings whose witness is a small C program (features the script harness does not drive, e.g. task sources):
    built against /repo as it is now (ASan) and run; the finding is printed when the program still fails the recorded way"""
    import os, re, vlib
    import json
    allk = [k for k in json.load(open(os.path.join(vlib.VERIF, 'known_findings.json'))).get('findings', []) if k['property'] == prop and k.get('witness_c')]
    out = []
    for k in allk:
        src = k.get('witness_c')
        if k.get('status') != 'open':
            # a repaired finding: its witness program is a regression test
            exe, log = vlib.build_harness('witness_%s' % k['id'].replace('-', '_'), src, LIB_SRCS, extra=['-lpthread', '-ldl'], defines=DEFINES,
                                          sanitize='address')
            if exe is None:
                rep.notes.append('witness of repaired finding %s does not compile against /repo any more: %s' % (k['id'], log[-300:]))
                continue
            e = dict(os.environ, ASAN_OPTIONS='detect_leaks=0:abort_on_error=0:exitcode=97')
            try:
                rc, so, se = vlib.sh([exe], timeout=60, env=e)
            except Exception as ex:
                rc, so, se = 124, '', str(ex)
            rep.cov.setdefault('witness_programs_of_repaired_findings', []).append({'id': k['id'], 'exit': rc})
            if rc != 0:
                p = vlib.save_replay(prop, 'witness_%s.json' % k['id'], {'property': prop, 'finding': k['id'], 'what': k['what'],
                                     'program': 'harness/' + src, 'exit': rc, 'stderr': se[-3000:]})
                out.append((p, 'the witness program of repaired finding %s fails again (exit %d): %s' % (k['id'], rc, (re.search(r'ERROR: AddressSanitizer: [^\n]*', se) or re.search(r'.*', se[-200:])).group(0)), True))
            continue
        if any(kh[0] == k['id'] for kh in rep.known_hits):
            continue
        exe, log = vlib.build_harness('witness_%s' % k['id'].replace('-', '_'), src, LIB_SRCS, extra=['-lpthread', '-ldl'], defines=DEFINES,
                                      sanitize='address')
        if exe is None:
            rep.notes.append('witness of known finding %s does not compile against /repo any more: %s' % (k['id'], log[-300:]))
            continue
        e = dict(os.environ, ASAN_OPTIONS='detect_leaks=0:abort_on_error=0:exitcode=97', UBSAN_OPTIONS='halt_on_error=1:exitcode=98')
        try:
            rc, so, se = vlib.sh([exe], timeout=60, env=e)
        except Exception as ex:      # a hang is not the recorded failure
            rep.notes.append('witness of known finding %s: %s' % (k['id'], ex))
            continue
        if rc != 0 and re.search(k['signature'], se):
            rep.known(k['id'], k['what'])
        else:
            rep.notes.append('known finding %s no longer reproduces on its witness program (exit %d)' % (k['id'], rc))
    return out


def task_stress(rep, prop, tier, sanitize):
    """harness/task_stress.c against /repo as it is now: tasks of random length while their modules are paused, stopped,
    deregistered (the schedule the script harness steers around); any sanitizer report is a violation with the seed as input"""
    import os, re, vlib
    exe, log = vlib.build_harness('task_stress_%s' % sanitize, 'task_stress.c', LIB_SRCS, extra=['-lpthread', '-ldl'], defines=DEFINES, sanitize=sanitize)
    if exe is None:
        rep.infra_error = 'task_stress.c does not compile against /repo: ' + log[-800:]
        return []
    seeds = range(1, 4) if tier == 'quick' else range(1, 25)
    e = dict(os.environ, ASAN_OPTIONS='detect_leaks=0:abort_on_error=0:exitcode=97', TSAN_OPTIONS='halt_on_error=0:exitcode=66:report_signal_unsafe=0')
    runs = 0
    for sd in seeds:
        try:
            rc, so, se = vlib.sh([exe, str(sd)], timeout=300, env=e)
        except Exception as ex:
            rc, so, se = 124, '', 'timeout: %s' % ex
        runs += 1
        lib = '/Lib/' in se
        if rc != 0 and (sanitize == 'address' or lib or rc == 124):
            what = (re.search(r'(ERROR: AddressSanitizer|WARNING: ThreadSanitizer): [^\n]*', se) or re.search(r'.*', se[-200:])).group(0)
            p = vlib.save_replay(prop, 'task_stress_%s_%d.json' % (sanitize, sd), {'property': prop, 'program': 'harness/task_stress.c', 'sanitizer': sanitize,
                                 'seed': sd, 'exit': rc, 'stderr': se[-4000:]})
            rep.cov['task_stress_runs_%s' % sanitize] = runs
            return [(p, 'task sources under stress (harness/task_stress.c, seed %d, -fsanitize=%s): %s' % (sd, sanitize, what), True)]
    rep.cov['task_stress_runs_%s' % sanitize] = runs
    return []
