"""Common settings of the core-machine plug-ins."""
from props import corelib

MODEL = 'core'
HARNESS_NAME = 'core_harness'
HARNESS_SRC = 'core_harness.c'
LIB_SRCS = ['Lib/core/ctx.c', 'Lib/core/mod.c', 'Lib/core/ps.c', 'Lib/core/evts.c', 'Lib/core/src.c', 'Lib/core/main.c',
            'Lib/core/fs/fs_noop.c', 'Lib/core/poll/epoll.c', 'Lib/core/poll/cmn_linux.c', 'Lib/structs/map.c',
            'Lib/structs/queue.c', 'Lib/structs/stack.c', 'Lib/structs/list.c', 'Lib/structs/bst.c', 'Lib/mem/mem.c',
            'Lib/thpool/thpool.c', 'Lib/utils/mem.c', 'Lib/utils/log.c', 'Lib/utils/utils.c']
HARNESS_EXTRA = ['-Wl,--wrap=pthread_setspecific,--wrap=pipe,--wrap=close,--wrap=dup,--wrap=poll_wait,--wrap=m_thpool_add,--wrap=m_thpool_free', '-lpthread', '-ldl']
DEFINES = ['LIBMODULE_LOG_CTX=CORE']
model_input = corelib.model_input
project = corelib.project_all
project_pair = corelib.project_pair
FULL_ALPHABET = ['ctx', 'reg', 'reg', 'life', 'life', 'life', 'loop', 'loop', 'ps', 'ps', 'sub', 'become', 'stash', 'batch',
                 'tb', 'fd', 'fd', 'tmr', 'srclen', 'errno', 'flags', 'prio', 'pill', 'tick', 'burst', 'foreign', 'src2', 'task']


def gen_fragments():
    """tie A of the core machine: guard prefixes of every entry point + inventory of static objects, from /repo as it is now"""
    import os, vlib, gen_core
    ch = gen_core.generate(os.path.join(vlib.LEAN, 'Lm', 'Generated'))
    return 'CoreGuards.lean, Statics.lean ' + ('changed' if ch else 'unchanged')


def wellformed(lines):
    return corelib.wellformed_core(lines)


def known_match(k, lines, msg):
    return False


def witness_programs(rep, prop):
    """known findings whose witness is a small C program (features the script harness does not drive, e.g. task sources):
    built against /repo as it is now (ASan) and run; the finding is printed when the program still fails the recorded way"""
    import os, re, vlib
    for k in vlib.load_known(prop):
        src = k.get('witness_c')
        if not src or any(kh[0] == k['id'] for kh in rep.known_hits):
            continue
        exe, log = vlib.build_harness('witness_%s' % k['id'].replace('-', '_'), src, LIB_SRCS, extra=['-lpthread', '-ldl'], defines=DEFINES,
                                      sanitize='address')
        if exe is None:
            rep.notes.append('witness of known finding %s does not compile against /repo any more: %s' % (k['id'], log[-300:]))
            continue
        e = dict(os.environ, ASAN_OPTIONS='detect_leaks=0:abort_on_error=0:exitcode=97', UBSAN_OPTIONS='halt_on_error=1:exitcode=98')
        try:
            rc, so, se = vlib.sh([exe], timeout=60, env=e)
        except Exception as ex:      # a hang is not the recorded failure
            rep.notes.append('witness of known finding %s: %s' % (k['id'], ex))
            continue
        if rc != 0 and re.search(k['signature'], se):
            rep.known(k['id'], k['what'])
        else:
            rep.notes.append('known finding %s no longer reproduces on its witness program (exit %d)' % (k['id'], rc))
    return []
