"""C05 — the string-keyed map behaves as a dictionary for all key sets and operation orders."""
import os, sys, collections
ID = 'C05'
MODEL = 'map'
PROPS_MODULE = 'Lm.Props.C05'
PROPS_FILE = 'Lm/Props/C05.lean'
HARNESS_NAME = 'map_harness'
HARNESS_SRC = 'map_harness.c'
LIB_SRCS = ['Lib/structs/map.c', 'Lib/utils/mem.c', 'Lib/utils/log.c']
RULE = ('scripts new/put/get/has/del/len/clear/free/seq/oom/iterate[rm-all|rm-at|stop-at|err-at|del-at|put-at]/it new|next|get|key|set|rm '
        'over all 8 flag combinations x dtor; key sets: random k<N>; adversarial sets found by brute force with the hash of map.c '
        '(all keys in one home slot; keys homing on the last slots -> clusters wrapping the table end; two-home chains longer than '
        'half the table (D-05a); one key per home over size/2+1 consecutive homes (D-05b)); exact fill levels 191..257; growth 256->512->1024; the iteration '
        'order (seq) is printed after mutating calls; non-trivial = >=3 puts and a removal or an iteration')
EXHAUSTIVE = {}

M64 = (1 << 64) - 1


def khash(s):
    """hashmap_hash_string of map.c (djb2 + murmur3 finalizer on size_t)"""
    x = 5381
    for ch in s.encode():
        c = ch if ch < 128 else ch - 256
        x = ((x << 5) + x + c) & M64
    x ^= x >> 16
    x = (x * 0x85ebca6b) & M64
    x ^= x >> 13
    x = (x * 0xc2b2ae35) & M64
    x ^= x >> 16
    return x


_BUCKETS = {}


def buckets(size):
    """home slot -> keys k0, k1, … (in order) for a table of `size` slots"""
    if size not in _BUCKETS:
        b = collections.defaultdict(list)
        for i in range(120000):
            k = 'k%d' % i
            b[khash(k) % size].append(k)
        _BUCKETS[size] = b
    return _BUCKETS[size]


def gen_fragments():
    import gen_map
    ch = gen_map.generate(os.path.join(os.path.dirname(os.path.dirname(os.path.dirname(os.path.abspath(__file__)))), 'lean', 'Lm', 'Generated'))
    return 'Map.lean ' + ('regenerated (changed)' if ch else 'unchanged')


FLAGS = [0, 1, 2, 3, 256, 257, 258, 259]


class Gen:
    """builds one script; keeps a dict so that most calls are meaningful"""

    def __init__(self, rng, keys, flags=None, dtor=None, seq_every=1):
        self.rng = rng
        self.keys = list(keys)
        self.flags = rng.choice(FLAGS) if flags is None else flags
        self.dtor = rng.randrange(2) if dtor is None else dtor
        self.L = ['new %d %d' % (self.flags, self.dtor)]
        self.d = {}
        self.nv = 1
        self.seq_every = seq_every
        self.nmut = 0
        self.nput = 0

    def val(self):
        self.nv += 1
        return self.nv

    def mut(self):
        self.nmut += 1
        if self.seq_every and self.nmut % self.seq_every == 0:
            self.L.append('seq')

    def put(self, k, v=None):
        v = self.val() if v is None else v
        self.L.append('put %s %d' % (k, v))
        self.nput += 1
        if v != 0 and (k not in self.d or self.flags & 256):
            self.d[k] = v
        self.mut()

    def dele(self, k):
        self.L.append('del %s' % k)
        self.d.pop(k, None)
        self.mut()

    def probe(self, k):
        self.L.append(self.rng.choice(['get %s', 'get %s', 'has %s']) % k)

    def check_all(self):
        for k in self.keys:
            if k in self.d or self.rng.random() < 0.1:
                self.L.append('get %s' % k)
        self.L.append('len')

    def iterate(self):
        r = self.rng.random()
        n = len(self.d)
        if r < 0.25 or n == 0:
            self.L.append('iterate')
        elif r < 0.45:
            self.L.append('iterate rm-all'); self.d.clear()
        elif r < 0.75:
            idx = sorted(set(self.rng.randrange(n) for _ in range(self.rng.randrange(1, min(n, 12) + 1))))
            self.L.append('iterate rm-at ' + ' '.join(map(str, idx)))
            self.d = None   # which keys go is decided by the table order
        elif r < 0.82:
            self.L.append('iterate stop-at %d' % self.rng.randrange(n + 1))
        elif r < 0.88:
            self.L.append('iterate err-at %d' % self.rng.randrange(n + 1))
        elif r < 0.94:
            self.L.append('iterate del-at %d %s' % (self.rng.randrange(n), self.rng.choice(self.keys)))
            self.d = None
        else:
            if self.nput < 90:
                self.L.append('iterate put-at %d %s %d' % (self.rng.randrange(n), self.rng.choice(self.keys), self.val()))
                self.d = None
            else:
                self.L.append('iterate')
        self.mut()

    def itr_walk(self):
        """walk with the iterator, sometimes removing / setting"""
        self.L.append('it new')
        n = len(self.d) if self.d is not None else 40
        prm = self.rng.choice([0.0, 0.0, 0.3, 1.0])
        steps = n + 1 if self.rng.random() < 0.8 else self.rng.randrange(n + 1)
        for _ in range(steps):
            self.L.append('it key')
            r = self.rng.random()
            if r < 0.3:
                self.L.append('it get')
            if r > 0.85:
                self.L.append('it set %d' % self.val())
            if self.rng.random() < prm:
                self.L.append('it rm')
                if self.rng.random() < 0.2:
                    self.L.append(self.rng.choice(['it key', 'it get', 'it rm', 'it set 5']))
            self.L.append('it next')
        self.d = None
        self.L.append('seq')

    def resync(self):
        pass

    def finish(self):
        self.L.append('len')
        if self.rng.random() < 0.3:
            self.L.append('clear'); self.L.append('seq'); self.L.append('len')
        self.L.append('free')
        return self.L


def random_script(rng, keys, n_ops, **kw):
    g = Gen(rng, keys, **kw)
    for _ in range(n_ops):
        if g.d is None:
            # contents no longer known to the generator: keep going with blind choices
            g.d = {k: 1 for k in g.keys if rng.random() < 0.5}
        r = rng.random()
        live = list(g.d)
        if r < 0.40 or not live:
            k = rng.choice(g.keys)
            v = None
            if rng.random() < 0.03:
                v = 0
            elif k in g.d and rng.random() < 0.15:
                v = g.d[k]          # same value again: no destructor call
            g.put(k, v)
        elif r < 0.60:
            g.dele(rng.choice(live) if rng.random() < 0.85 else rng.choice(g.keys))
        elif r < 0.80:
            g.probe(rng.choice(g.keys))
        elif r < 0.84:
            g.L.append('len')
        elif r < 0.92:
            g.iterate()
        elif r < 0.97:
            g.itr_walk()
        elif r < 0.985:
            g.L.append('clear'); g.d = {}; g.mut()
        else:
            g.L.append('oom')
    return g.finish()


def cluster_script(rng, keys, flags=None, dtor=None):
    """fill with an adversarial key set, then remove / iterate / look everything up"""
    g = Gen(rng, keys, flags=flags, dtor=dtor, seq_every=0)
    order = list(keys)
    if rng.random() < 0.5:
        rng.shuffle(order)
    for k in order:
        g.put(k)
    g.L.append('seq')
    mode = rng.randrange(5)
    if mode == 0:
        vict = rng.sample(order, min(len(order), rng.randrange(1, 6)))
        for k in vict:
            g.dele(k)
            g.L.append('seq')
        g.check_all()
    elif mode == 1:
        n = len(order)
        idx = sorted(set(rng.randrange(n) for _ in range(rng.randrange(1, 9))))
        g.L.append('iterate rm-at ' + ' '.join(map(str, idx)))
        g.L.append('seq')
        g.d = None
        for k in order:
            g.L.append('get %s' % k)
    elif mode == 2:
        g.itr_walk()
        for k in order:
            g.L.append('get %s' % k)
    elif mode == 3:
        g.L.append('iterate')
        g.L.append('iterate rm-all')
        g.d = {}
        g.L.append('seq')
        g.check_all()
    else:
        for _ in range(rng.randrange(3, 30)):
            if rng.random() < 0.5 and g.d:
                g.dele(rng.choice(list(g.d)))
            else:
                g.put(rng.choice(order))
        g.L.append('seq')
        g.check_all()
    return g.finish()


def d05a_shape(size, h0, n0, gap, n1):
    b = buckets(size)
    return b[h0 % size][:n0] + b[(h0 + gap) % size][:n1]


def d05b_shape(size, h0, count):
    b = buckets(size)
    return [b[(h0 + i) % size][0] for i in range(count)]


def scripts(rng, tier):
    out = []
    quick = tier == 'quick'
    # --- adversarial key sets ---
    b256 = buckets(256)
    b1024 = buckets(1024)
    n = 0
    for rep in range(24 if quick else 90):
        # all keys in one home slot (also after growth: same home modulo 1024)
        h = rng.choice([0, 1, 127, 128, 200, 254, 255, rng.randrange(256)])
        cnt = rng.choice([3, 8, 40, 127, 128, 129, 140])
        out.append(('onehome:%d' % n, cluster_script(rng, b256[h][:cnt]))); n += 1
        hh = rng.choice([h, h + 256, h + 768])
        out.append(('onehome1024:%d' % n, cluster_script(rng, b1024[hh][:rng.choice([5, 60, 130])]))); n += 1
        # keys homing on the last slots: clusters wrapping the table end
        ks = []
        for hs in range(rng.choice([250, 252, 254, 255]), 256):
            ks += b256[hs][:rng.choice([1, 2, 3, 10])]
        ks += b256[0][:rng.choice([0, 1, 3])] + b256[1][:rng.choice([0, 2])]
        out.append(('wrap:%d' % n, cluster_script(rng, ks))); n += 1
        # D-05a: two-home chain longer than half the table
        h0 = rng.choice([0, 100, 200, 255, rng.randrange(256)])
        ks = d05a_shape(256, h0, rng.choice([128, 120, 100]), rng.choice([64, 32, 100]), rng.choice([64, 30, 80]))
        g = Gen(rng, ks, seq_every=0)
        for k in ks:
            g.put(k)
        g.dele(ks[0]); g.L.append('seq'); g.check_all()
        out.append(('d05a:%d' % n, g.finish())); n += 1
        # D-05b: one key per home over size/2+1 consecutive homes
        h0 = rng.choice([0, 1, 127, 128, 129, 200, rng.randrange(256)])
        ks = d05b_shape(256, h0, rng.choice([129, 129, 130, 140, 128]))
        g = Gen(rng, ks, seq_every=0)
        for k in ks:
            g.put(k)
        g.dele(ks[0]); g.L.append('seq'); g.check_all()
        if rng.random() < 0.5:
            g.dele(ks[1]); g.check_all()
        out.append(('d05b:%d' % n, g.finish())); n += 1
    # --- exact fill levels around the load-factor threshold (and what would be a completely full table) ---
    for lvl in (191, 192, 193, 255, 256, 257):
        base = rng.randrange(20000)
        ks = ['k%d' % (base + j) for j in range(lvl)]
        g = Gen(rng, ks, seq_every=0)
        for k in ks:
            g.put(k)
        g.L.append('len'); g.L.append('seq'); g.L.append('iterate')
        g.L.append('get %s' % ks[0]); g.L.append('get k999999')
        if rng.random() < 0.5:
            g.itr_walk()
        else:
            g.dele(ks[rng.randrange(lvl)]); g.L.append('seq'); g.check_all()
        out.append(('fill:%d' % lvl, g.finish()))
    # --- growth 256 -> 512 -> 1024 ---
    for rep in range(5 if quick else 24):
        pool = ['k%d' % rng.randrange(3000) for _ in range(rng.choice([450, 800]))]
        g = Gen(rng, pool, seq_every=rng.choice([25, 60]))
        for i, k in enumerate(pool):
            g.put(k)
            if i % 7 == 3:
                g.dele(rng.choice(pool[:i + 1]))
            if i % 11 == 5:
                g.probe(rng.choice(pool))
        g.L.append('seq')
        g.check_all()
        if rng.random() < 0.5:
            g.L.append('iterate rm-at ' + ' '.join(str(x) for x in sorted(set(rng.randrange(len(g.d)) for _ in range(10)))))
            g.L.append('seq')
        out.append(('growth:%d' % rep, g.finish()))
    # --- random scripts ---
    nr = 2500 if quick else 14000
    for i in range(nr):
        r = rng.random()
        if r < 0.5:
            pool = ['k%d' % rng.randrange(60) for _ in range(rng.choice([4, 8, 20]))]
        elif r < 0.75:
            # a few homes shared by many keys, around the table end
            hs = [rng.choice([253, 254, 255, 0, 1]) for _ in range(3)]
            pool = []
            for h in hs:
                pool += b256[h][:rng.choice([2, 4, 8])]
        else:
            h = rng.randrange(256)
            pool = b256[h][:6] + b256[(h + 1) % 256][:4] + b256[(h + 3) % 256][:3]
        out.append(('rnd:%d' % i, random_script(rng, pool, rng.randrange(5, 60 if quick else 150))))
    return out


# ------------------------------------------------------------------------------------------------
# oracle


def spec(lines, out):
    """Independent oracle: a python dict, evaluated over the implementation's output only."""
    v = []
    pos = [0]

    def nxt():
        if pos[0] < len(out):
            pos[0] += 1
            return out[pos[0] - 1]
        return '<eof>'

    def peek():
        return out[pos[0]] if pos[0] < len(out) else '<eof>'

    def take_events():
        ev = []
        while peek().split(' ')[0] in ('dtor', 'kalloc', 'kfree'):
            ev.append(nxt())
        return ev

    def fault(o, ln):
        if o.startswith('FAULT') or o == '<eof>' or o.startswith('free-untracked') or o.startswith('harness'):
            v.append(('fault', 'crash / memory error during `%s`: %s' % (ln, o)))
            return True
        return False

    d = None          # None: no map
    flags = 0
    dtor = False
    oom = False
    own = False
    it = None         # iterator session: dict(remaining=set, cur=key|None|'?', removed=bool, npos=int, start_len=int, blind=bool)

    def removal_events(k, val):
        e = []
        if own:
            e.append('kfree %s' % k)
        if dtor:
            e.append('dtor %d' % val)
        return e

    def expect_events(got, exp, ln, what):
        if sorted(got) != sorted(exp):
            clause = 'keys' if any(x.startswith('k') for x in set(got) ^ set(exp)) or \
                collections.Counter(x for x in got if x[0] == 'k') != collections.Counter(x for x in exp if x[0] == 'k') else 'dtor'
            v.append((clause, '`%s`: %s events %s, expected %s' % (ln, what, got, exp)))

    def oracle_put(k, val, ln, ev, rc):
        """checks one put (events already collected, rc parsed) and updates d"""
        nonlocal oom
        exp = []
        if val == 0:
            if rc != -22:
                v.append(('put', '`%s` (NULL value) -> %d' % (ln, rc)))
            expect_events(ev, [], ln, 'put')
            return
        if own:
            exp.append('kalloc %s' % k)
        if rc == -12 and oom:
            oom = False
            if own:
                exp.append('kfree %s' % k)
            expect_events(ev, exp, ln, 'put(-ENOMEM)')
            return
        if k in d:
            if flags & 256:
                if rc != 0:
                    v.append(('put', '`%s` on an existing key with ALLOW_UPDATE -> %d' % (ln, rc)))
                if dtor and d[k] != val:
                    exp.append('dtor %d' % d[k])
                if rc == 0:
                    d[k] = val
            else:
                if rc != -1:
                    v.append(('put', '`%s` on an existing key without ALLOW_UPDATE -> %d, expected -EPERM' % (ln, rc)))
            if own:
                exp.append('kfree %s' % k)
        else:
            if rc != 0:
                v.append(('put', '`%s` of a new key -> %d' % (ln, rc)))
                if own:
                    exp.append('kfree %s' % k)
            else:
                d[k] = val
        expect_events(ev, exp, ln, 'put')

    def oracle_del(k, ln, ev, rc):
        if k in d:
            if rc != 0:
                v.append(('remove', '`%s` of a live key -> %d' % (ln, rc)))
                expect_events(ev, [], ln, 'failed remove')
            else:
                expect_events(ev, removal_events(k, d[k]), ln, 'remove')
                del d[k]
        else:
            if rc not in (-2, -22) or (rc == -22 and len(d) > 0):
                v.append(('remove', '`%s` of an absent key -> %d' % (ln, rc)))
            expect_events(ev, [], ln, 'remove of an absent key')

    for ln in lines:
        t = ln.split()
        if not t:
            continue
        op = t[0]
        if op == 'new':
            o = nxt()
            if fault(o, ln):
                return v
            if d is None and o == '= ok':
                d = {}
                flags = int(t[1]); dtor = t[2] != '0'; own = bool(flags & 3); oom = False; it = None
            elif o not in ('bad-op',):
                v.append(('new', '`%s` -> %s' % (ln, o)))
            continue
        if op == 'oom':
            if d is not None:
                oom = True
            continue
        if d is None:
            # no map: every call must fail cleanly
            o = nxt()
            if fault(o, ln):
                return v
            if op == 'free':
                o2 = nxt()
            exp = {'put': '= -22', 'get': '= nil', 'has': '= 0', 'del': '= -22', 'len': '= -22', 'clear': '= -22',
                   'free': '= -22', 'seq': 'seq', 'iterate': '= -22'}.get(op)
            if op == 'it':
                exp = {'new': '= nil', 'next': '= -22 nil', 'get': '= nil', 'key': '= nil', 'set': '= -22', 'rm': '= -22'}.get(t[1])
            if exp is not None and o != exp:
                v.append(('null', '`%s` without a map -> %s' % (ln, o)))
            continue
        if op in ('put', 'del', 'clear', 'free', 'iterate'):
            it = None
        if op == 'put':
            ev = take_events(); o = nxt()
            if fault(o, ln):
                return v
            oracle_put(t[1], int(t[2]), ln, ev, int(o[2:]))
        elif op == 'get':
            o = nxt()
            if fault(o, ln):
                return v
            exp = '= %d' % d[t[1]] if t[1] in d else '= nil'
            if o != exp:
                v.append(('get', '`%s` -> %s, dictionary says %s' % (ln, o, exp)))
        elif op == 'has':
            o = nxt()
            if fault(o, ln):
                return v
            if o != '= %d' % (1 if t[1] in d else 0):
                v.append(('get', '`%s` -> %s, dictionary says %s' % (ln, o, t[1] in d)))
        elif op == 'len':
            o = nxt()
            if fault(o, ln):
                return v
            if o != '= %d' % len(d):
                v.append(('len', '`len` -> %s, dictionary has %d entries' % (o, len(d))))
        elif op == 'del':
            ev = take_events(); o = nxt()
            if fault(o, ln):
                return v
            oracle_del(t[1], ln, ev, int(o[2:]))
        elif op in ('clear', 'free'):
            ev = take_events(); o = nxt()
            if fault(o, ln):
                return v
            exp = []
            for k, val in d.items():
                exp += removal_events(k, val)
            if o != '= 0':
                v.append((op, '`%s` -> %s' % (op, o)))
            expect_events(ev, exp, ln, op)
            d = {}
            if op == 'free':
                o2 = nxt()
                if o2 != 'leak 0 0':
                    v.append(('keys' if not o2.startswith('leak 0 ') else 'free', 'after `free`: %s (key blocks / other blocks still allocated)' % o2))
                d = None
        elif op == 'seq':
            o = nxt()
            if fault(o, ln):
                return v
            items = o.split()[1:]
            exp = sorted('%s:%d' % kv for kv in d.items())
            if not o.startswith('seq') or sorted(items) != exp:
                extra = sorted(set(items) - set(exp)); miss = sorted(set(exp) - set(items))
                dup = [x for x, c in collections.Counter(items).items() if c > 1]
                v.append(('iterate', '`seq` (iteration over the whole map) lists %d entries, the dictionary has %d; '
                          'not live: %s, never visited: %s, visited twice: %s' % (len(items), len(d), extra[:4], miss[:4], dup[:4])))
        elif op == 'iterate':
            start = dict(d)
            kind = t[1] if len(t) > 1 else ''
            ats = [int(x) for x in t[2:]] if kind == 'rm-at' else ([int(t[2])] if kind in ('stop-at', 'err-at', 'del-at', 'put-at') else [])
            visits = []
            strict = True          # exactly-once demanded (no foreign modification by the callback)
            stopped = None
            while True:
                o = nxt()
                if fault(o, ln):
                    return v
                if o.startswith('visit '):
                    _, k, val = o.split()
                    i = len(visits)
                    visits.append(k)
                    if k not in d or (d[k] != int(val)):
                        v.append(('iterate', '`%s`: visit %d shows %s:%s, not a live entry (dictionary: %s)' % (ln, i, k, val, d.get(k))))
                    act = None
                    if kind == 'rm-all' or (kind == 'rm-at' and i in ats):
                        act = ('del', k)
                    elif kind == 'del-at' and i in ats:
                        act = ('del', t[3])
                        if t[3] != k and t[3] in d:
                            strict = False
                    elif kind == 'put-at' and i in ats:
                        act = ('put', t[3], int(t[4]))
                    elif kind == 'stop-at' and i in ats:
                        stopped = 0
                    elif kind == 'err-at' and i in ats:
                        stopped = -7
                    if act:
                        ev = take_events(); o2 = nxt()
                        if fault(o2, ln):
                            return v
                        if act[0] == 'del':
                            oracle_del(act[1], ln, ev, int(o2[2:]))
                        else:
                            n0 = len(d)
                            oracle_put(act[1], act[2], ln, ev, int(o2[2:]))
                            if len(d) != n0:
                                stopped = -13
                    continue
                break
            rc = int(o[2:]) if o.startswith('= ') else None
            if len(visits) != len(set(visits)):
                dup = [k for k, c in collections.Counter(visits).items() if c > 1]
                v.append(('iterate', '`%s` visited %s more than once (%d visits)' % (ln, dup[:4], len(visits))))
            if len(start) == 0:
                if rc != -22 or visits:
                    v.append(('iterate', '`%s` on an empty map -> %s' % (ln, o)))
            elif stopped is not None:
                if rc != stopped:
                    v.append(('iterate', '`%s` -> %s, expected %d' % (ln, o, stopped)))
            elif not strict:
                if rc not in (0, -13):
                    v.append(('iterate', '`%s` -> %s' % (ln, o)))
            else:
                if rc != 0:
                    v.append(('iterate', '`%s` -> %s' % (ln, o)))
                if set(visits) != set(start):
                    miss = sorted(set(start) - set(visits))
                    v.append(('iterate', '`%s` visited %d of %d live entries; never visited: %s' % (ln, len(set(visits)), len(start), miss[:5])))
        elif op == 'it':
            sub = t[1]
            if sub == 'new':
                o = nxt()
                if fault(o, ln):
                    return v
                if (o == '= it') != (len(d) > 0):
                    v.append(('iterator', '`it new` -> %s with %d entries' % (o, len(d))))
                it = None
                if o == '= it':
                    it = dict(remaining=set(d), cur=None, removed=False, npos=1, start_len=len(d), blind=False)
            elif sub == 'next':
                o = nxt()
                if fault(o, ln):
                    return v
                if it is None:
                    if o != '= -22 nil':
                        v.append(('iterator', '`it next` without iterator -> %s' % o))
                    continue
                if it['cur'] is None and not it['removed']:
                    it['blind'] = True
                if o == '= 0 it':
                    it['cur'] = None; it['removed'] = False; it['npos'] += 1
                    if it['npos'] > it['start_len']:
                        v.append(('iterator', 'the iterator reached position %d of a map that had %d entries' % (it['npos'], it['start_len'])))
                elif o == '= 0 nil':
                    if it['npos'] != it['start_len']:
                        v.append(('iterator', 'the iterator ended after %d of %d entries' % (it['npos'], it['start_len'])))
                    elif not it['blind'] and it['remaining']:
                        v.append(('iterator', 'the iterator never visited %s' % sorted(it['remaining'])[:5]))
                    it = None
                else:
                    v.append(('iterator', '`it next` -> %s' % o))
            elif sub == 'key':
                o = nxt()
                if fault(o, ln):
                    return v
                if it is None or it['removed']:
                    if o != '= nil':
                        v.append(('iterator', '`it key` without a current entry -> %s' % o))
                    continue
                k = o[2:]
                if it['cur'] is None:
                    if k not in it['remaining']:
                        v.append(('iterator', 'the iterator shows %s: %s' % (k, 'visited before' if k in d else 'not a live key')))
                    it['remaining'].discard(k)
                    it['cur'] = k
                elif k != it['cur']:
                    v.append(('iterator', '`it key` changed from %s to %s without `it next`' % (it['cur'], k)))
            elif sub == 'get':
                o = nxt()
                if fault(o, ln):
                    return v
                if it is None or it['removed']:
                    if o != '= nil':
                        v.append(('iterator', '`it get` without a current entry -> %s' % o))
                elif it['cur'] is not None:
                    if o != '= %d' % d.get(it['cur'], -1):
                        v.append(('iterator', '`it get` at %s -> %s, dictionary says %s' % (it['cur'], o, d.get(it['cur']))))
                elif o == '= nil' or int(o[2:]) not in d.values():
                    v.append(('iterator', '`it get` -> %s, not a live value' % o))
            elif sub == 'set':
                o = nxt()
                if fault(o, ln):
                    return v
                val = int(t[2])
                if it is None or it['removed'] or val == 0:
                    if o != '= -22':
                        v.append(('iterator', '`%s` without a current entry -> %s' % (ln, o)))
                else:
                    if o != '= 0':
                        v.append(('iterator', '`%s` -> %s' % (ln, o)))
                    if it['cur'] is not None and it['cur'] in d:
                        d[it['cur']] = val
                    else:
                        return v      # which entry was written is unknown: stop checking this script
            elif sub == 'rm':
                ev = take_events(); o = nxt()
                if fault(o, ln):
                    return v
                if it is None or it['removed']:
                    if o != '= -22' or ev:
                        v.append(('iterator', '`it rm` without a current entry -> %s %s' % (ev, o)))
                else:
                    if o != '= 0':
                        v.append(('iterator', '`it rm` -> %s' % o))
                    if it['cur'] is None:
                        # the script did not ask for the key: recover it from the events, else give up
                        ks = [e.split()[1] for e in ev if e.startswith('kfree')]
                        if ks and ks[0] in d:
                            it['cur'] = ks[0]; it['remaining'].discard(ks[0])
                        else:
                            vals = [int(e.split()[1]) for e in ev if e.startswith('dtor')]
                            cand = [k for k in d if vals and d[k] == vals[0]]
                            if len(cand) == 1:
                                it['cur'] = cand[0]; it['remaining'].discard(cand[0])
                            else:
                                return v
                    if it['cur'] not in d:
                        v.append(('iterator', '`it rm` on %s, which is not a live key' % it['cur']))
                        return v
                    expect_events(ev, removal_events(it['cur'], d[it['cur']]), ln, 'iterator remove')
                    del d[it['cur']]
                    it['removed'] = True
            else:
                nxt()
        else:
            nxt()
    return v


def wellformed(lines):
    """API contract: one `new` first; values fit a pointer; a callback does not put while the table may grow"""
    if not lines or not lines[0].startswith('new '):
        return False
    nput = 0
    for i, ln in enumerate(lines):
        t = ln.split()
        try:
            if t[0] == 'new':
                if i != 0 or len(t) != 3 or int(t[1]) not in FLAGS or t[2] not in ('0', '1'):
                    return False
            elif t[0] == 'put':
                nput += 1
                if not (0 <= int(t[2]) < 2 ** 31):
                    return False
            elif t[0] == 'iterate' and len(t) > 1 and t[1] == 'put-at':
                nput += 1
                if nput > 100:
                    return False
        except (IndexError, ValueError):
            return False
    return True


def nontrivial(lines, out):
    nput = sum(1 for l in lines if l.startswith('put '))
    return nput >= 3 and any(l.startswith(('del ', 'iterate', 'it rm', 'clear')) for l in lines)


def known_match(k, lines, msg):
    return False
