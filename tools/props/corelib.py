"""Shared pieces of the core-machine checks (C01-C03, C07-C09, C13, C15-C19): script generator,
model input preparation (recorded poll batches), projections."""
import re, random

MASK = (1 << 64) - 1


def hash_str(s):
    h = 5381
    for ch in s.encode():
        h = ((h << 5) + h + ch) & MASK
    h ^= h >> 16
    h = (h * 0x85ebca6b) & MASK
    h ^= h >> 13
    h = (h * 0xc2b2ae35) & MASK
    h ^= h >> 16
    return h


def slot(s):
    return hash_str(s) & 255


def distinct_pool(cands, n):
    out, used = [], set()
    for c in cands:
        sl = slot(c)
        # keep a gap so that no entry can ever be probed into a neighbour's slot
        if sl in used or (sl + 1) % 256 in used or (sl - 1) % 256 in used:
            continue
        used.add(sl)
        out.append(c)
        if len(out) == n:
            break
    return out


NAMES = distinct_pool([chr(c) for c in range(ord('A'), ord('Z') + 1)], 8)
SYS_TOPICS = ['LIBMODULE_CTX_STARTED', 'LIBMODULE_CTX_STOPPED', 'LIBMODULE_MOD_STARTED', 'LIBMODULE_MOD_STOPPED', 'LIBMODULE_CTX_TICK']
USER_TOPICS = ['ta', 'tb', 'tc']
PATTERNS = ['t.', '^t[ab]$']
SUB_TOPICS = distinct_pool(USER_TOPICS + PATTERNS + SYS_TOPICS, 10)


def colliding_topics(n=3):
    """literal topics that share one home slot of a module's subscription table (so that the table's probing and its
    back-shift on removal are exercised), placed away from the slots of all other topics"""
    used = set()
    for t in SUB_TOPICS:
        for d in range(-1, n + 2):
            used.add((slot(t) + d) % 256)
    by = {}
    for i in range(4000):
        t = 'q%d' % i
        by.setdefault(slot(t), []).append(t)
    for sl in sorted(by):
        if len(by[sl]) >= n and all(((sl + d) % 256) not in used for d in range(-1, n + 2)):
            return by[sl][:n]
    return []


COLLIDING = colliding_topics()
SUB_TOPICS = SUB_TOPICS + COLLIDING
USER_TOPICS = USER_TOPICS + COLLIDING[:1]


def match_lines():
    out = []
    for p in SUB_TOPICS:
        for t in USER_TOPICS + SYS_TOPICS + ['LIBMODULE_MOD_POISONPILL']:
            if re.search(p, t):
                out.append('@match %s %s' % (p, t))
    return out


def model_input(lines, impl_out):
    """the model consumes the poll results recorded from the implementation run"""
    pre = match_lines()
    for o in impl_out:
        if o.startswith('BATCH'):
            pre.append('@batch' + o[5:])
    return pre + lines


def project_all(out):
    """everything but the recorded batches; descriptor closes are compared as a multiset per script
    (their position depends on when the last reference on a source is dropped, which the control-flow
    model does not track; C20 looks at them separately)"""
    main = [o for o in out if not o.startswith('BATCH') and not o.startswith('close ') and not o.startswith('free ') and not o.startswith('LEAKCHECK')]
    closes = sorted(o for o in out if o.startswith('close '))
    # payload releases likewise: *when* the last reference on an event goes depends on reference counts the
    # control-flow model does not track (an event can be in a handler's queue and in the stash at once);
    # that each auto-free payload is released exactly once, and never before its last delivery, is checked by the C02 oracle
    frees = sorted(o for o in out if o.startswith('free '))
    return main + ['closes: ' + ' '.join(closes), 'frees: ' + ' '.join(frees)]


def project_pair(impl_out, model_out):
    """comparable views of the two traces.  When the model declares that it does not follow the C code from some point on
    (`UNMODELLED …`, e.g. loop_stop working on a context object a callback already released) only the part before that point is
    compared; the oracles still judge the whole implementation trace."""
    a, b = project_all(impl_out), project_all(model_out)
    k = next((i for i, o in enumerate(b) if o.startswith('UNMODELLED')), None)
    if k is None:
        return a, b
    return a[:k], b[:k]


class Gen:
    """mostly-valid random programs over the core API, with nested callback bodies"""

    def __init__(self, rng, alphabet, max_mods=4, depth=2):
        self.r = rng
        self.alpha = alphabet
        self.max_mods = max_mods
        self.depth = depth
        self.lines = []
        self.h = []          # handles: dict(tok,name,flags,hooks,state)
        self.nh = 0
        self.ctx = False
        self.looping = False
        self.pay = 0
        self.fd_dead = set()
        self.fd_owner = {}    # a descriptor can be polled once per context: each one is used by a single module
        self.fd_dupped = set()
        self.bursts = 0

    def w(self, s):
        self.lines.append(s)

    def live(self, states=None):
        return [x for x in self.h if x['state'] != 'Z' and (states is None or x['state'] in states)]

    def pick(self, states=None):
        l = self.live(states)
        if l and self.r.random() < 0.9:
            return self.r.choice(l)
        usable = [x for x in self.h if not x.get('gone')]   # a handle without any reference left must never be used again
        if usable and self.r.random() < 0.8:
            return self.r.choice(usable)      # malformed stream: wrong state / zombie handle
        return None

    def body(self, d, m=None):
        """a callback body followed by its `ret`; `m`: the module whose hook is (believed to be) running — hooks that act on
        their own module (a start hook that pauses, stops or deregisters itself and then refuses, …) are the re-entrant
        cases the lifecycle properties quantify over"""
        refuse = self.r.random() < 0.2
        if m is not None and not m.get('gone') and self.r.random() < 0.3:
            self.w('%s %s' % (self.r.choice(['stop', 'stop', 'pause', 'dereg', 'start', 'resume']), m['tok']))
            refuse = self.r.random() < 0.6
        if d < self.depth:
            for _ in range(self.r.choice([0, 0, 1, 1, 2, 3])):
                self.op(d + 1)
        self.w('ret %d' % (0 if refuse else 1))

    def maybe_hook(self, m, hook, d, p=0.85):
        if hook in m['hooks'] and self.r.random() < p:
            self.body(d, m)

    def op(self, d=0):
        r = self.r
        a = r.choice(self.alpha)
        if not self.ctx and a not in ('ctx',) and r.random() < 0.9:
            a = 'ctx'
        if a == 'ctx':
            c = r.random()
            if not self.ctx or c < 0.15:
                self.w('ctx_reg %d' % (1 if r.random() < 0.3 else 0)); self.ctx = True
            elif c < 0.25:
                self.w('ctx_dereg')
                if not self.looping:
                    for m in self.live():
                        if m['state'] in 'RP' or r.random() < 0.5:
                            self.maybe_hook(m, 't', d, 0.6)
                        m['state'] = 'Z'
                    self.ctx = False
            elif c < 0.3:
                self.w('finalize')
            elif c < 0.4:
                self.w('ctx_len')
            elif c < 0.5 and 'tick' in self.alpha:
                self.w('tick %d' % r.choice([0, 1, 10 ** 12]))
            else:
                self.op_loop(d)
        elif a == 'loop':
            self.op_loop(d)
        elif a == 'reg':
            if len(self.live()) >= self.max_mods and r.random() < 0.8:
                return self.op_life(d)
            name = r.choice(NAMES[:self.max_mods + 1])
            fl = ''.join(f for f, p in (('R', .25), ('P', .12), ('C', .12), ('B', .1), ('S', .1)) if r.random() < p) or '-'
            if 'flags' not in self.alpha:
                fl = 'R' if r.random() < 0.2 else '-'
            hk = ''.join(f for f, p in (('s', .5), ('t', .5), ('e', .4)) if r.random() < p) or '-'
            tok = 'h%d' % self.nh
            self.nh += 1
            old = [x for x in self.live() if x['name'] == name]
            self.w('reg %s %s %s %s' % (tok, name, fl, hk))
            if old and 'R' in old[0]['flags']:
                self.maybe_hook(old[0], 't', d)
                old[0]['state'] = 'Z'
                old = []
            if not old:
                self.h.append(dict(tok=tok, name=name, flags=fl, hooks=hk, state='I', subs=set(), fds=set(), tmrs=set()))
        elif a == 'life':
            self.op_life(d)
        elif a == 'become':
            m = self.pick('R')
            if not m: return
            if r.random() < 0.6: self.w('become %s %d' % (m['tok'], r.randrange(1, 8)))
            else: self.w('unbecome %s' % m['tok'])
        elif a == 'ps':
            self.op_ps(d)
        elif a == 'sub':
            m = self.pick('IRPS')
            if not m: return
            if r.random() < 0.7:
                t = r.choice(SUB_TOPICS)
                pr = r.choice(['-', '-', 'n', 'l', 'h', 'h', 'ln']) if 'prio' in self.alpha else '-'
                if r.random() < 0.25: pr = pr.replace('-', '') + 'x'      # the topic string stays the caller's (no M_SRC_DUP)
                self.w('sub %s %s %s %d u%d' % (m['tok'], t, pr, 1 if r.random() < 0.15 else 0, r.randrange(1, 9)))
                m['subs'].add(t)
            else:
                t = r.choice(sorted(m['subs'])) if m['subs'] and r.random() < 0.8 else r.choice(SUB_TOPICS)
                self.w('unsub %s %s' % (m['tok'], t)); m['subs'].discard(t)
        elif a == 'stash':
            m = self.pick('R')
            if not m: return
            c = r.random()
            if c < 0.35: self.w('stash %s %d' % (m['tok'], r.randrange(0, 3)))
            elif c < 0.5:
                # a handler that puts aside everything it was given
                for i in range(r.randrange(2, 4)): self.w('stash %s %d' % (m['tok'], i))
            else:
                # hand back in slices: the remainder must stay stashed, in order
                for _ in range(r.choice([1, 1, 2, 3])):
                    self.w('unstash %s %d' % (m['tok'], r.choice([0, 1, 1, 2, 3, 9])))
                    if r.random() < 0.7: self.body(d)
        elif a == 'batch':
            m = self.pick()
            if not m: return
            if r.random() < 0.6: self.w('batch_size %s %d' % (m['tok'], r.choice([0, 1, 2, 3, 5])))
            else: self.w('batch_to %s %d' % (m['tok'], r.choice([0, 1, 10 ** 12])))
        elif a == 'tb':
            m = self.pick()
            if not m: return
            self.w('tb %s %d %d' % (m['tok'], r.choice([0, 1, 1, 10 ** 9, 10 ** 9, 2 * 10 ** 9, 65536, 131072, 65536 * 3]), r.choice([1, 2, 3, 5])))
        elif a == 'fd':
            m = self.pick()
            if not m: return
            c = r.random()
            ok = [k for k in range(6) if k not in self.fd_dead and self.fd_owner.get(k, m['tok']) == m['tok']]
            if not ok: return
            k = r.choice(ok)
            if c < 0.65: self.fd_owner[k] = m['tok']
            if c < 0.45:
                if m['state'] == 'R' and r.random() < 0.12:
                    k = r.choice([6, 7])       # a regular file: the poll set refuses it, nothing may be left behind
                fl = ''.join(f for f, p in (('o', .25), ('a', .15), ('h', .2), ('l', .05)) if r.random() < p) or '-'
                if k not in self.fd_dupped and r.random() < 0.15:
                    fl = fl.replace('-', '') + 'd'; self.fd_dupped.add(k)      # the library polls a duplicate it owns
                if 'a' in fl and k < 6: self.fd_dead.add(k)
                self.w('reg_fd %s f%d %s u%d' % (m['tok'], k, fl, r.randrange(1, 9)))
            elif c < 0.65:
                self.w('dereg_fd %s f%d' % (m['tok'], k))
            elif c < 0.9:
                self.w('make_ready f%d' % k)
            else:
                self.w('drain f%d' % k)
        elif a == 'tmr':
            m = self.pick()
            if not m: return
            ns = r.choice([1, 1, 10 ** 12, 5 * 10 ** 11, 0, 10 ** 12 + 2 ** 32, 10 ** 12 + 2 ** 33, 10 ** 12 + 2 ** 31 + 5, 10 ** 12 - 2 ** 32])
            if r.random() < 0.65:
                fl = ''.join(f for f, p in (('o', .3), ('h', .2), ('l', .15)) if r.random() < p) or '-'
                self.w('reg_tmr %s %d %s u%d' % (m['tok'], ns, fl, r.randrange(1, 9)))
            else:
                self.w('dereg_tmr %s %d' % (m['tok'], ns))
        elif a == 'src2':
            # signal, pid, path and threshold sources: registry behaviour only (they never fire here)
            m = self.pick()
            if not m: return
            fl = ''.join(f for f, p in (('o', .2), ('h', .15), ('l', .1)) if r.random() < p) or '-'
            k = r.choice(['sgn', 'sgn', 'pid', 'path', 'thr'])
            reg = r.random() < 0.6
            if k == 'sgn':
                n = r.choice([10, 12, 34, 35, 0])
                self.w(('reg_sgn %s %d %s u%d' % (m['tok'], n, fl, r.randrange(1, 9))) if reg else ('dereg_sgn %s %d' % (m['tok'], n)))
            elif k == 'pid':
                n = r.choice([1, 2, 3, 0])
                self.w(('reg_pid %s %d %s u%d' % (m['tok'], n, fl, r.randrange(1, 9))) if reg else ('dereg_pid %s %d' % (m['tok'], n)))
            elif k == 'path':
                n = r.choice([1, 2, 3, 4, 4, 0])      # 4: a path that cannot be watched
                if reg and r.random() < 0.3: fl = fl.replace('-', '') + 'd'
                self.w(('reg_path %s %d %s u%d' % (m['tok'], n, fl, r.randrange(1, 9))) if reg else ('dereg_path %s %d' % (m['tok'], n)))
            else:
                a, b = r.choice([(1, 0), (2, 0), (3, 0), (1, 0), (0, 0)])
                self.w(('reg_thr %s %d %d %s u%d' % (m['tok'], a, b, fl, r.randrange(1, 9))) if reg else ('dereg_thr %s %d %d' % (m['tok'], a, b)))
        elif a == 'task':
            # task sources: run on the context's thread pool, fire once with the function's result
            m = self.pick()
            if not m: return
            if r.random() < 0.85:
                fl = r.choice(['-', '-', '-', 'h', 'l', 'n'])
                self.w('reg_task %s %d %s u%d' % (m['tok'], r.choice([1, 1, 2, 3]), fl, r.randrange(1, 9)))
            else:
                self.w('dereg_task %s %d' % (m['tok'], r.choice([1, 2, 3])))
        elif a == 'srclen':
            m = self.pick()
            if m: self.w('srclen %s' % m['tok'])
        elif a == 'errno':
            if d > 0: self.w('errno %d' % r.choice([9, 11, 4, 22, 2]))
        elif a == 'foreign':
            self.op_foreign(d)

    def op_foreign(self, d):
        """C14: a module operation issued by another thread (holding its own context, or none), or a message
        addressed to a module of another thread's context.  Refused, so the generator's own bookkeeping is untouched."""
        r = self.r
        m = self.pick()
        if not m: return
        if r.random() < 0.3:
            # the alien module may carry the name of one of ours
            self.w('xtell %s %s %d' % (m['tok'], r.choice(NAMES[:self.max_mods + 1]), 1 if r.random() < 0.4 else 0))
            return
        t = (self.pick() or m)['tok']
        h = m['tok']
        self.pay += 1
        inner = r.choice([
            'start %s' % h, 'pause %s' % h, 'resume %s' % h, 'stop %s' % h, 'dereg %s' % h,
            'become %s %d' % (h, r.randrange(1, 8)), 'unbecome %s' % h, 'unstash %s %d' % (h, r.randrange(0, 3)),
            'batch_size %s %d' % (h, r.randrange(0, 4)), 'batch_to %s %d' % (h, r.choice([0, 10 ** 12])),
            'tb %s %d %d' % (h, r.choice([0, 1, 10 ** 9]), r.randrange(1, 4)),
            'tell %s %s p%d %d' % (h, t, self.pay, r.randrange(2)), 'pub %s %s p%d %d' % (h, r.choice(USER_TOPICS + ['-']), self.pay, r.randrange(2)),
            'pill %s %s' % (h, t), 'sub %s %s - 0 u%d' % (h, r.choice(SUB_TOPICS), r.randrange(1, 9)), 'unsub %s %s' % (h, r.choice(SUB_TOPICS)),
            'reg_fd %s f%d - u1' % (h, r.choice([k for k in range(6) if k not in self.fd_dead] or [7])), 'dereg_fd %s f%d' % (h, r.choice([k for k in range(6) if k not in self.fd_dead] or [7])),
            'reg_tmr %s %d - u1' % (h, r.choice([0, 10 ** 12])), 'dereg_tmr %s %d' % (h, r.choice([0, 10 ** 12])), 'srclen %s' % h])
        self.w('foreign %s %s' % (r.choice(['ctx', 'none']), inner))

    def op_life(self, d):
        r = self.r
        m = self.pick()
        if not m: return
        if not m.get('gone') and m.get('owned', True) and r.random() < 0.06:
            # the user drops its extra reference: from now on only the registration (and in-flight messages) keep the module
            self.w('unref %s' % m['tok']); m['owned'] = False
            if m['state'] == 'Z': m['gone'] = True
            return
        c = r.choice(['start', 'start', 'pause', 'resume', 'stop', 'stop', 'dereg'])
        self.w('%s %s' % (c, m['tok']))
        if c == 'dereg' and not m.get('owned', True): m['gone'] = True
        st = m['state']
        if c == 'start' and st in 'IS':
            m['state'] = 'R'; self.maybe_hook(m, 's', d)
        elif c == 'pause' and st == 'R': m['state'] = 'P'
        elif c == 'resume' and st == 'P': m['state'] = 'R'
        elif c == 'stop' and st in 'RP':
            m['state'] = 'S'; self.maybe_hook(m, 't', d)
        elif c == 'dereg' and st != 'Z':
            m['state'] = 'Z'; self.maybe_hook(m, 't', d)

    def op_ps(self, d):
        r = self.r
        m = self.pick('R')
        if not m: return
        self.pay += 1
        c = r.random()
        af = 1 if r.random() < 0.35 else 0
        if c < 0.03 and self.bursts == 0 and 'burst' in self.alpha:
            t = self.pick('RP') or m
            self.bursts += 1
            self.w('burst %s %s p%d %d %d' % (m['tok'], t['tok'], 5000, af, r.choice([8190, 8193, 8300])))
        elif c < 0.45:
            t = self.pick('RP') or m
            self.w('tell %s %s p%d %d' % (m['tok'], t['tok'], self.pay, af))
        elif c < 0.8:
            self.w('pub %s %s p%d %d' % (m['tok'], r.choice(USER_TOPICS + ['-', '-'] + (['LIBMODULE_X'] if r.random() < 0.1 else [])), self.pay, af))
        elif 'pill' in self.alpha:
            t = self.pick('R') or m
            self.w('pill %s %s' % (m['tok'], t['tok']))

    def op_loop(self, d):
        r = self.r
        c = r.random()
        if c < 0.75 or d > 0:
            self.w('dispatch')
            # whatever it triggers: a few callback bodies
            for _ in range(r.choice([0, 1, 1, 2, 3])):
                self.body(d)
            self.looping = True
        elif c < 0.9:
            self.w('quit %d' % r.randrange(0, 300))
        else:
            self.w('loop')
            for _ in range(r.choice([1, 2, 3, 4])):
                if r.random() < 0.3:
                    self.w('quit %d' % r.randrange(0, 256))
                self.body(d)


TEARDOWN = ['quit 0', 'dispatch'] + ['ret 1'] * 4 + ['ctx_dereg'] + ['ret 1'] * 6 + ['leakcheck']


def scenario(rng, kind=None):
    """directed skeletons for interactions of several features that random programs compose too rarely (each with random
    parameters); every one ends with a complete teardown and the leak check"""
    r = rng
    kind = kind or r.choice(['pill_batch_dereg', 'paused_flush', 'oneshot_stop', 'replace_inflight', 'stash_slices', 'tb_reconf',
                             'tick_eval', 'tb_batch', 'errno_batch', 'dup_refused', 'far_timers', 'refuse_self', 'stash_prio',
                             'oneshot_regex', 'sub_collide', 'low_restart', 'stash_pause_stop', 'tasks', 'burst_order', 'resub_dup', 'tick_restart'])
    L = ['ctx_reg %d' % r.randrange(2)]
    af = lambda: r.randrange(2)
    if kind == 'pill_batch_dereg':
        # events parked in a batch, a pill behind them, the handler deregisters its module through its only reference
        k = r.randrange(2, 5); j = r.randrange(1, k)
        L += ['reg h0 A - %s' % r.choice(['-', 't', 'st'])]
        if r.random() < 0.7: L += ['unref h0']
        L += ['start h0'] + (['ret 1'] if True else [])
        other = r.random() < 0.6
        if other:
            # traffic and pill come from another module, which is gone by the time the pill is read: nothing but the
            # registration and the user's own reference keeps h0 then
            L += ['reg h1 B - -', 'start h1']
        snd = 'h1' if other else 'h0'
        L += ['dispatch', 'batch_size h0 %d' % k] + ['tell %s h0 p%d %d' % (snd, i + 1, af()) for i in range(j)] + ['dispatch'] * j
        L += ['pill %s h0' % snd]
        if other:
            L += [r.choice(['stop h1', 'stop h1', 'dereg h1', 'pause h1'])]
            if r.random() < 0.5: L += ['unref h1']
        L += ['dispatch', r.choice(['dereg h0', 'dereg h0', 'dereg h0', 'stop h0', 'unstash h0 1', 'ret 1']), 'ret 1', 'ret 1', 'dispatch', 'ret 1']
    elif kind == 'paused_flush':
        # messages sent to a PAUSED module, which is then stopped / deregistered while still paused
        n = r.randrange(1, 4)
        L += ['reg h0 A - -', 'reg h1 B - %s' % r.choice(['-', 't']), 'start h0', 'start h1', 'dispatch', 'pause h1']
        L += [r.choice(['tell h0 h1 p%d %d', 'tell h0 h1 p%d %d', 'pub h0 - p%d %d']) % (i + 1, af()) for i in range(n)]
        L += [r.choice(['stop h1', 'dereg h1', 'resume h1', 'dereg h0']), 'ret 1']
        if r.random() < 0.5: L += ['unref h0', 'unref h1']
    elif kind == 'oneshot_stop':
        # several descriptors ready in one batch; the first handler stops / pauses / deregisters things
        L += ['reg h0 A - -', 'reg h1 B - -', 'start h0', 'start h1']
        L += ['reg_fd h0 f0 %s u1' % r.choice(['-', 'o', 'a', 'oa', 'd']), 'reg_fd h0 f1 %s u2' % r.choice(['-', 'o']), 'reg_fd h1 f2 %s u3' % r.choice(['-', 'o', 'a'])]
        L += ['make_ready f0', 'make_ready f1', 'make_ready f2', 'dispatch', 'dispatch']
        L += [r.choice(['stop h0', 'pause h0', 'dereg h1', 'dereg_fd h0 f1', 'stop h1', 'errno 9']), 'ret 1', 'ret 1', 'ret 1', 'dispatch', 'ret 1', 'ret 1']
    elif kind == 'replace_inflight':
        # a module is replaced by name while messages from / to it are in flight
        L += ['reg h0 A R %s' % r.choice(['-', 't']), 'reg h1 B - -', 'start h0', 'start h1', 'dispatch']
        L += ['tell h0 h1 p1 %d' % af(), 'tell h1 h0 p2 %d' % af(), 'reg h2 A %s -' % r.choice(['-', 'R']), 'ret 1']
        if r.random() < 0.6: L += ['unref h0']
        L += ['dispatch', 'ret 1', 'dispatch', 'ret 1']
    elif kind == 'stash_slices':
        # a handler stashes what it was given; the stash is handed back in slices
        k = r.randrange(2, 5)
        L += ['reg h0 A - -', 'start h0', 'batch_size h0 %d' % k] + ['tell h0 h0 p%d 0' % (i + 1) for i in range(k)] + ['dispatch'] * (k + 1)
        L += ['stash h0 %d' % i for i in range(r.randrange(1, k + 1))] + ['ret 1']
        for _ in range(r.randrange(1, 4)):
            L += ['unstash h0 %d' % r.choice([0, 1, 1, 2, 9]), 'ret 1']
        L += [r.choice(['stop h0', 'dereg h0', 'srclen h0']), 'ret 1']
    elif kind == 'stash_prio':
        # a handler tries to stash events of every priority: descriptor events (always high), timers and messages
        fl = r.choice(['-', '-', 'l', 'h', 'o'])
        L += ['reg h0 A - -', 'start h0', 'reg_fd h0 f0 %s u1' % fl, 'reg_tmr h0 1 %s u2' % r.choice(['-', 'l', 'h', 'o']),
              'sub h0 ta - %s u3' % r.choice(['0', '0', '1']), 'pub h0 ta p1 0', 'make_ready f0', 'dispatch', 'dispatch']
        L += ['stash h0 0', 'stash h0 1', 'ret 1', 'dispatch', 'stash h0 0', 'ret 1', 'dispatch', 'stash h0 0', 'ret 1', 'unstash h0 %d' % r.choice([1, 2, 9]), 'ret 1']
    elif kind == 'oneshot_regex':
        # a one-shot subscription by pattern: the first matching message consumes it, whatever its topic
        L += ['reg h0 A - -', 'reg h1 B - -', 'start h0', 'start h1', 'sub h1 %s - 1 u1' % r.choice(PATTERNS + PATTERNS + ['ta']),
              'sub h1 tc - %d u2' % r.randrange(2)]
        L += ['pub h0 %s p%d %d' % (r.choice(['ta', 'tb', 'tc']), i + 1, af()) for i in range(r.randrange(2, 5))] + ['srclen h1']
        if r.random() < 0.5:
            # the handler of the first message subscribes again to the topic the one-shot subscription was consumed for
            L += ['dispatch', 'dispatch', 'sub h1 %s %s %d u5' % (r.choice(['ta', 'tb', 't.']), r.choice(['-', 'x']), r.randrange(2)), 'srclen h1', 'ret 1']
        L += ['dispatch'] * 5 + ['srclen h1', 'pub h0 ta p9 0', 'dispatch', 'dispatch', 'srclen h1', 'unsub h1 ta', 'unsub h1 t.']
    elif kind == 'sub_collide':
        # literal topics that share one home slot of the subscription table, removed and added back in several orders
        ts = COLLIDING[:]; r.shuffle(ts)
        L += ['reg h0 A - -', 'start h0'] + ['sub h0 %s - 0 u%d' % (t, i + 1) for i, t in enumerate(ts)] + ['srclen h0']
        rm = ts[:]; r.shuffle(rm)
        for t in rm[:r.randrange(1, 3)]:
            L += ['unsub h0 %s' % t, 'srclen h0']
        L += ['pub h0 %s p1 0' % COLLIDING[0]] + ['unsub h0 %s' % t for t in ts] + ['srclen h0', 'sub h0 %s - 0 u7' % r.choice(ts),
              'pub h0 %s p2 0' % COLLIDING[0], 'dispatch', 'dispatch', 'dispatch', 'srclen h0']
    elif kind == 'low_restart':
        # low priority events wait for a normal one; the module is stopped (or paused) and started again meanwhile
        L += ['reg h0 A - -', 'reg h1 B - -', 'start h0', 'start h1', 'sub h1 ta l 0 u1', 'sub h1 tb - 0 u2']
        if r.random() < 0.3: L += ['batch_size h1 %d' % r.randrange(0, 4)]
        L += ['pub h0 ta p%d %d' % (i + 1, af()) for i in range(r.randrange(1, 4))] + ['dispatch'] * 4
        L += [r.choice(['stop h1', 'stop h1', 'pause h1']), r.choice(['start h1', 'start h1', 'resume h1']), 'sub h1 tb - 0 u3',
              'pub h0 tb p8 0', 'dispatch', 'dispatch', 'ret 1']
    elif kind == 'stash_pause_stop':
        # stashed events of a module that is paused, then stopped and started again
        k = r.randrange(1, 4)
        L += ['reg h0 A - -', 'start h0'] + ['tell h0 h0 p%d %d' % (i + 1, af()) for i in range(k)] + ['dispatch']
        L += ['dispatch', 'stash h0 0', 'ret 1'] * k
        L += [r.choice(['pause h0', 'pause h0', 'srclen h0']), r.choice(['stop h0', 'stop h0', 'resume h0']), 'srclen h0', 'start h0',
              'unstash h0 %d' % r.choice([1, 9]), 'ret 1', 'tell h0 h0 p7 0', 'dispatch', 'dispatch', 'unstash h0 9', 'ret 1']
    elif kind == 'tasks':
        # task sources registered before / after start, across pause and resume, stop and restart, with batching
        L += ['reg h0 A - %s' % r.choice(['-', 's', 't']), 'reg_task h0 1 - u1', r.choice(['start h0', 'dispatch']), 'ret 1',
              'reg_task h0 2 %s u2' % r.choice(['-', 'l', 'h']), 'reg_task h0 1 - u3', 'dereg_task h0 2', 'srclen h0']
        if r.random() < 0.4: L += ['batch_size h0 %d' % r.randrange(2, 4)]
        L += [r.choice(['dispatch', 'pause h0', 'stop h0', 'srclen h0']), r.choice(['resume h0', 'start h0', 'dispatch']), 'ret 1',
              'dispatch', 'dispatch', 'srclen h0', 'reg_task h0 2 - u4', 'dispatch', 'dispatch', 'ret 1', 'srclen h0']
    elif kind == 'burst_order':
        # a mailbox filled to the brim, more sends on top (refused), then everything is read: order and loss
        n = r.choice([8190, 8192, 8195, 8200])
        L += ['reg h0 A - -', 'reg h1 B - -', 'start h0', 'start h1', 'burst h0 h1 p5000 %d %d' % (af(), n),
              'tell h0 h1 p1 0', 'tell h0 h1 p2 %d' % af(), 'dispatch', 'dispatch', 'dispatch', 'tell h0 h1 p3 0', 'dispatch', 'dispatch']
    elif kind == 'resub_dup':
        # repeated subscriptions to one topic that differ in who owns the topic string (M_SRC_DUP or not), in both directions
        fl = ['-', 'x']; r.shuffle(fl)
        L += ['reg h0 A - -', 'start h0', 'sub h0 ta %s 0 u1' % fl[0], 'sub h0 ta %s %d u2' % (fl[1], r.randrange(2)),
              'sub h0 tb %s 0 u3' % fl[1], 'sub h0 tb %s 0 u4' % fl[0], 'sub h0 t. x 0 u5', 'sub h0 t. - 0 u6', 'srclen h0',
              'pub h0 ta p1 %d' % af(), 'dispatch', 'dispatch', r.choice(['unsub h0 ta', 'stop h0', 'dereg h0', 'srclen h0']),
              'sub h0 ta x 0 u7', 'sub h0 tb x 0 u8', 'srclen h0']
    elif kind == 'tick_restart':
        # a tick configured, the loop stopped and started again (the tick source must leave and re-enter the poll set), torn down
        L += ['reg h0 A - -', 'start h0', 'sub h0 LIBMODULE_CTX_TICK - 0 u1', 'tick %d' % r.choice([1, 1, 10 ** 12]), 'dispatch', 'dispatch',
              'quit %d' % r.randrange(1, 200), 'dispatch', 'dispatch', 'dispatch', r.choice(['tick 1', 'tick 0', 'srclen h0']), 'dispatch',
              'quit 0', 'dispatch', 'dispatch', 'dispatch']
    elif kind == 'tb_reconf':
        # a bucket is configured, drained, reconfigured (rates that share low bits), stopped, restarted
        L += ['reg h0 A - -', 'tb h0 %d %d' % (r.choice([1, 65536, 131072, 10 ** 9]), r.randrange(1, 4)), 'start h0']
        L += ['become h0 %d' % r.randrange(1, 8) for _ in range(r.randrange(0, 5))]
        L += ['tb h0 %d %d' % (r.choice([0, 1, 2, 65536, 10 ** 9]), r.randrange(1, 4))] + ['dispatch'] * r.randrange(0, 3)
        L += ['become h0 2', r.choice(['stop h0', 'pause h0', 'srclen h0']), 'start h0'] + ['become h0 %d' % i for i in range(1, r.randrange(2, 8))] + ['dispatch', 'become h0 1']
    elif kind == 'tick_eval':
        # a context woken only by its tick; evaluation callbacks change their mind over time
        L += ['reg h0 A - e', 'reg h1 B - %s' % r.choice(['e', '-', 'se']), 'tick 1', 'dispatch', 'ret 0', 'ret %d' % r.randrange(2)]
        L += ['dispatch', 'ret %d' % r.randrange(2), 'ret 1', 'dispatch', 'ret 1', 'ret 1', 'dispatch', 'ret 1']
    elif kind == 'tb_batch':
        # events held back by batching while the bucket's refill timer (1 ns) keeps firing
        k = r.randrange(2, 5)
        L += ['reg h0 A - -', 'start h0', 'tb h0 1000000000 %d' % r.randrange(2, 6), 'batch_size h0 %d' % k]
        L += ['tell h0 h0 p%d 0' % (i + 1) for i in range(k - 1)] + ['dispatch'] * (k + 1) + ['ret 1']
    elif kind == 'errno_batch':
        # several mailboxes / descriptors ready in one batch; an early callback leaves errno behind
        L += ['reg h0 A - -', 'reg h1 B - -', 'reg h2 C - -', 'start h0', 'start h1', 'start h2', 'dispatch']
        L += ['tell h0 h1 p1 %d' % af(), 'tell h0 h2 p2 %d' % af(), 'tell h0 h0 p3 0', 'dispatch', 'errno %d' % r.choice([2, 9, 11, 22]), 'ret 1', 'errno 4', 'ret 1', 'ret 1']
        L += ['quit %d' % r.randrange(1, 200), 'dispatch', 'ret 1']
    elif kind == 'dup_refused':
        # a descriptor the poll set refuses, with and without a duplicate made by the library
        L += ['reg h0 A - -', 'start h0', 'reg_fd h0 f%d %s u1' % (r.choice([6, 7]), r.choice(['d', 'ad', '-', 'a'])), 'srclen h0',
              'reg_fd h0 f0 %s u2' % r.choice(['d', 'ad']), 'srclen h0', r.choice(['stop h0', 'dereg h0', 'dereg_fd h0 f0'])]
    elif kind == 'far_timers':
        # timer periods that differ by more than 32 bits, registered and removed in several orders
        base = 10 ** 12
        per = [base, base + 2 ** 32, base + 2 ** 33, base - 2 ** 32, base + 2 ** 31 + 5, base + 2 ** 34]
        r.shuffle(per)
        L += ['reg h0 A - -'] + ['reg_tmr h0 %d - u%d' % (p, i + 1) for i, p in enumerate(per[:r.randrange(3, 6)])] + ['srclen h0']
        L += ['dereg_tmr h0 %d' % r.choice(per) for _ in range(r.randrange(1, 4))] + ['srclen h0'] + ['reg_tmr h0 %d - u9' % r.choice(per), 'srclen h0']
    elif kind == 'refuse_self':
        # a start hook that acts on its own module and then refuses
        L += ['reg h0 A - %s' % r.choice(['s', 'st', 'ste']), 'reg h1 B - -', 'sub h1 LIBMODULE_MOD_STOPPED - 0 u1', 'sub h1 LIBMODULE_MOD_STARTED - 0 u2', 'start h1', 'dispatch']
        L += ['start h0', r.choice(['pause h0', 'stop h0', 'dereg h0', 'resume h0', 'start h0']), 'ret 0', 'ret 1', 'ret 1', 'dispatch', 'ret 1', 'dispatch', 'ret 1']
    # a little noise
    for _ in range(r.choice([0, 0, 1, 2])):
        L.insert(r.randrange(1, len(L) + 1), r.choice(['ret 1', 'dispatch', 'srclen h0', 'ctx_len', 'pause h0', 'resume h0']))
    L += TEARDOWN
    k = first_illformed(L)
    return L[:k] if k is not None else L


def gen_script(rng, alphabet, n_ops, max_mods=4, depth=2, teardown=0.4):
    g = Gen(rng, alphabet, max_mods, depth)
    for _ in range(n_ops):
        g.op(0)
    if rng.random() < teardown:
        # complete teardown, then the harness checks that nothing the library allocated or opened is left
        # (`ret` lines close callback bodies that may be opened by the teardown itself; at top level they are ignored)
        g.lines += ['quit 0', 'dispatch'] + ['ret 1'] * 4 + ['ctx_dereg'] + ['ret 1'] * 6 + ['leakcheck']
    k = first_illformed(g.lines)
    if k is not None:
        g.lines = g.lines[:k]      # the generator's bookkeeping is approximate inside callbacks: cut at the first precondition violation
    return g.lines


def first_illformed(lines):
    """index of the first line that violates an API precondition a script must respect, or None.  A handle is not used
    once no reference is left (the user dropped its extra reference and called m_mod_deregister, in either order);
    a descriptor is handed to the library for duplication at most once (the model numbers the duplicate after the
    descriptor); nothing follows the leak check (it drops every reference)."""
    unref, dereged, dupped = set(), set(), set()
    for i, l in enumerate(lines):
        t = l.split()
        if not t: continue
        if t[0] == 'leakcheck' and i != len(lines) - 1: return i + 1
        toks = t[2:] if t[0] == 'foreign' else t
        if not toks: continue
        hs = [x for x in toks[1:3] if x.startswith('h') and x[1:].isdigit()]
        if toks[0] == 'reg': hs = []
        if any(h in unref and h in dereged for h in hs): return i
        if toks[0] == 'unref' and len(toks) == 2: unref.add(toks[1])
        if toks[0] == 'dereg' and len(toks) == 2 and t[0] != 'foreign': dereged.add(toks[1])
        if toks[0] == 'reg_fd' and len(toks) == 5 and 'd' in toks[3]:
            if toks[2] in dupped: return i
            dupped.add(toks[2])
    return None


def wellformed_core(lines):
    return first_illformed(lines) is None


# ---------------------------------------------------------------------------------------------------
# trace alignment: which output lines belong to which script line (nesting included)

ENV_ONLY = ('make_ready', 'drain', 'errno', 'leakcheck')


class Rec:
    __slots__ = ('op', 'depth', 'result', 'dump', 'out', 'invokes', 'parent_cb', 'prev_dump', 'nested', 'evt_cb', 'cbrets')

    def __init__(self, op, depth, parent_cb):
        self.op, self.depth, self.parent_cb = op, depth, parent_cb
        self.result, self.dump, self.out, self.invokes = None, None, [], []
        self.prev_dump, self.nested = None, 0
        self.evt_cb = None      # innermost enclosing handler invocation (what `stash <i>` refers to)
        self.cbrets = []        # (INVOKE line, value returned by the callback body) for the callbacks this op triggered directly


def align(lines, out):
    """-> (records in script order, ok).  A record's `out` holds the non-structural lines (free/close/BATCH…)
    printed while the op was the innermost active one; `invokes` the INVOKE lines of callbacks it triggered."""
    recs = []
    events = []      # output order: ('I', invoke line, record) / ('R', record)
    st = {'i': 0, 'j': 0, 'ok': True, 'last_dump': None}

    def exec_op(depth, parent_cb, evt_cb=None):
        if st['i'] >= len(lines):
            return 'ret'
        op = lines[st['i']]
        st['i'] += 1
        t = op.split()
        if not t:
            return None
        if t[0] == 'ret':
            return 'ret0' if len(t) > 1 and t[1] == '0' else 'ret'
        if t[0] == 'leakcheck' and depth > 0:
            return 'ret'           # inside a callback the line ends the body
        if t[0] in ENV_ONLY:
            return None
        r = Rec(op, depth, parent_cb)
        r.evt_cb = evt_cb
        # the dump is the state the call starts from only when nothing happened since it was printed
        r.prev_dump = st['last_dump'] if (st['j'] > 0 and out[st['j'] - 1].startswith('S ')) or st['j'] == 0 else None
        recs.append(r)
        while True:
            if st['j'] >= len(out):
                st['ok'] = False
                return None
            o = out[st['j']]
            st['j'] += 1
            if o.startswith('INVOKE '):
                r.invokes.append(o)
                events.append(('I', o, r))
                # callback body: nested script lines until `ret` (or the end of the script)
                val = True
                while True:
                    if st['i'] >= len(lines):
                        break
                    r.nested += 1
                    x = exec_op(depth + 1, o, o if o.startswith('INVOKE on_evt') else evt_cb)
                    if x in ('ret', 'ret0'):
                        val = x == 'ret'
                        break
                r.cbrets.append((o, val))
                continue
            if o.startswith('= '):
                r.result = o[2:]
                if st['j'] < len(out) and out[st['j']].startswith('S '):
                    r.dump = out[st['j']]
                    st['last_dump'] = r.dump
                    st['j'] += 1
                events.append(('R', None, r))
                return None
            if o in ('bad-handle', 'bad-op'):
                r.result = o
                return None
            if o.startswith('FAULT'):
                r.result = o
                st['ok'] = False
                return None
            r.out.append(o)
            if o.startswith('BATCH'):
                events.append(('B', o, r))      # (kept apart from the 'I' / 'R' events by Trace: only some oracles want them)

    while st['i'] < len(lines) and st['ok']:
        exec_op(0, None)
    return recs, events, st['ok']


def parse_dump(d):
    """'S ctx=loop,q run=2 | h0:R:p1:s0:u0:b0/0:st0:r0:tk- h1:Z' -> (ctx dict, {handle: fields})"""
    if d is None:
        return None, {}
    head, _, tail = d[2:].partition('|')
    ctx = {'state': None, 'run': None, 'quit': False, 'fin': False}
    for tok in head.split():
        if tok.startswith('ctx='):
            parts = tok[4:].split(',')
            ctx['state'] = None if parts[0] == 'none' else parts[0]
            ctx['quit'] = 'q' in parts[1:]
            ctx['fin'] = 'fin' in parts[1:]
        elif tok.startswith('run='):
            ctx['run'] = int(tok[4:])
    mods = {}
    for tok in tail.split():
        f = tok.split(':')
        m = {'state': f[1]}
        for x in f[2:]:
            if x.startswith('st'): m['stash'] = int(x[2:])
            elif x.startswith('tk'): m['tk'] = None if x[2:] == '-' else int(x[2:])
            elif x.startswith('p'): m['pipe'] = int(x[1:])
            elif x.startswith('s'): m['srcs'] = int(x[1:])
            elif x.startswith('u'): m['subs'] = int(x[1:])
            elif x.startswith('b'): m['blen'], m['bq'] = x[1:].split('/')[0], int(x[1:].split('/')[1])
            elif x.startswith('r'): m['recvs'] = int(x[1:])
        mods[f[0]] = m
    return ctx, mods


def parse_invoke(o):
    """'INVOKE on_evt#2 h1:R ps(ta,h0,p3,0,u1) fd(f2,u4)' -> (cb, handler, handle, state, [events])"""
    t = o.split()
    cb = t[1]
    hd = None
    if '#' in cb:
        cb, hd = cb.split('#')
        hd = int(hd)
    h, _, stt = t[2].partition(':')
    evs = []
    for e in t[3:]:
        kind, _, rest = e.partition('(')
        evs.append((kind, rest.rstrip(')').split(',')))
    return cb, hd, h, stt, evs


LEGAL_EDGES = {('I', 'R'), ('R', 'P'), ('P', 'R'), ('R', 'S'), ('P', 'S'), ('S', 'R'),
               ('I', 'Z'), ('R', 'Z'), ('P', 'Z'), ('S', 'Z')}


def legal_path(a, b):
    """is b reachable from a along documented edges (several transitions can happen inside one call)"""
    if a == b:
        return True
    seen, todo = {a}, [a]
    while todo:
        x = todo.pop()
        for (p, q) in LEGAL_EDGES:
            if p == x and q not in seen:
                seen.add(q)
                todo.append(q)
    return b in seen
