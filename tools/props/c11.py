"""C11 — ordered set (BST): set semantics, sorted iteration, right destructor target."""
import os, sys, itertools
ID = 'C11'
MODEL = 'bst'
PROPS_MODULE = 'Lm.Props.C11'
PROPS_FILE = 'Lm/Props/C11.lean'
HARNESS_NAME = 'bst_harness'
HARNESS_SRC = 'bst_harness.c'
LIB_SRCS = ['Lib/structs/bst.c', 'Lib/utils/mem.c', 'Lib/utils/log.c']
RULE = ('scripts over new(dtor?,user|default comparator)/ins/rm/find/len/clear/free/trav/iterate/it new|next|get|rm; '
        'values are integers used as pointers; user comparator orders by v/4 (distinct pointers may compare equal), '
        'default-comparator pools contain pointers >= 2^31, 2^32 and 2^63 apart; every insertion order of K distinct '
        'elements (K <= 5 quick, <= 6 thorough), each followed by every single removal and by every '
        'iterate-with-removal pattern; random scripts with mixed ops; non-trivial = a destructor ran or >= 3 '
        'elements were inserted and one removed')
EXHAUSTIVE = {'quick': True, 'thorough': True}

EINVAL, EEXIST, ENOENT = 22, 17, 2


def gen_fragments():
    import gen_bst
    ch = gen_bst.generate(os.path.join(os.path.dirname(os.path.dirname(os.path.dirname(os.path.abspath(__file__)))), 'lean', 'Lm', 'Generated'))
    return 'Bst.lean ' + ('regenerated (changed)' if ch else 'unchanged')


FAR = [1, 2, 5, 6, 2**31 - 1, 2**31, 2**31 + 5, 2**32 - 1, 2**32, 2**32 + 1, 2**32 + 5, 2**33, 2**33 + 5, 3 * 2**32,
       3 * 2**32 + 5, 2**40 + 5, 2**63 - 1, 2**63, 2**63 + 5, 2**64 - 2**32, 2**64 - 2**31, 2**64 - 2, 2**64 - 1]


def one_random(rng, n_ops):
    user = rng.random() < 0.5
    lines = ['new %d %s' % (rng.random() < 0.7, 'user' if user else 'default')]
    if user:
        pool = [rng.randrange(0, 64) for _ in range(rng.randrange(3, 14))] + [0]
    elif rng.random() < 0.6:
        pool = rng.sample(FAR, rng.randrange(3, 12)) + [0]
    else:
        base = rng.choice([0, 2**31, 2**32, 2**63])
        pool = [(base * rng.randrange(0, 4) + rng.randrange(0, 12)) % 2**64 for _ in range(rng.randrange(3, 12))]
    it_live = False
    for _ in range(n_ops):
        r = rng.random()
        if it_live and r < 0.6:
            lines.append(rng.choice(['it get', 'it next', 'it rm', 'it next', 'it get', 'it rm', 'len', 'trav in']))
            continue
        if r < 0.40:
            lines.append('ins %d' % rng.choice(pool)); it_live = False
        elif r < 0.55:
            lines.append('rm %d' % rng.choice(pool)); it_live = False
        elif r < 0.63:
            lines.append('find %d' % rng.choice(pool))
        elif r < 0.67:
            lines.append('len')
        elif r < 0.73:
            o = rng.choice(['trav pre', 'trav in', 'trav post', 'iterate'])
            if rng.random() < 0.4:
                o += ' %d %d' % (rng.randrange(0, 5), rng.choice([1, -1, -5, 7, 0]))
            lines.append(o)
        elif r < 0.83:
            lines.append('it new'); it_live = True
        elif r < 0.90:
            lines.append(rng.choice(['it get', 'it next', 'it rm']))
        elif r < 0.94:
            lines.append('clear'); it_live = False
        elif r < 0.96:
            lines.append('free'); it_live = False
            lines.append('new %d %s' % (rng.random() < 0.7, 'user' if user else 'default'))
        else:
            # a whole iteration with random removals
            lines.append('it new')
            for _ in range(rng.randrange(1, 10)):
                lines.append('it get')
                if rng.random() < 0.5:
                    lines.append('it rm')
                lines.append('it next')
            it_live = True
    if rng.random() < 0.7:
        lines.append(rng.choice(['clear', 'free']))
    return lines


def perm_scripts(K, which):
    """all insertion orders of K distinct elements; which(i) -> (dtor, cmp-name, values)"""
    out = []
    for pi, perm in enumerate(itertools.permutations(range(K))):
        d, cn, vals = which(pi)
        head = ['new %d %s' % (d, cn)] + ['ins %d' % vals[j] for j in perm]
        tag = 'perm%d:%s' % (K, ''.join(map(str, perm)))
        for j in range(K):
            out.append(('%s:rm%d' % (tag, j), head + ['rm %d' % vals[j], 'find %d' % vals[j], 'len', 'free']))
        for mask in range(1 << K):
            ls = list(head) + ['it new']
            for j in range(K):
                ls.append('it get')
                if mask >> j & 1:
                    ls.append('it rm')
                ls.append('it next')
            ls += ['it get', 'len', 'clear' if mask & 1 else 'free']
            out.append(('%s:it%d' % (tag, mask), ls))
    return out


def scripts(rng, tier):
    out = []
    kmax = 5 if tier == 'quick' else 6
    uservals = [8, 17, 26, 35, 40, 49]
    farvals = [5, 2**31 + 5, 2**32 + 5, 2**33 + 5, 2**63 + 5, 2**64 - 3]
    for K in range(1, kmax + 1):
        out += perm_scripts(K, lambda i: ((1, 'user', uservals) if i % 2 == 0 else (1, 'default', farvals)) if K > 3
                            else [(1, 'user', uservals), (1, 'default', farvals), (0, 'default', farvals)][i % 3])
    if kmax < 6:
        # a sample of the K = 6 orders in every quick run as well
        allp = list(itertools.permutations(range(6)))
        for perm in rng.sample(allp, 40):
            head = ['new 1 default'] + ['ins %d' % farvals[j] for j in perm]
            for j in range(6):
                out.append(('perm6s:%s:rm%d' % (''.join(map(str, perm)), j), head + ['rm %d' % farvals[j], 'free']))
    n = 600 if tier == 'quick' else 12000
    for i in range(n):
        out.append(('rnd:%d' % i, one_random(rng, rng.randrange(5, 70 if tier == 'quick' else 250))))
    return out


# ------------------------------------------------------------------------------------------------
# independent oracle: a sorted list of elements

class Abs:
    def __init__(self, dtor, user):
        self.dtor, self.user = dtor, user
        self.elems = []       # sorted by key

    def key(self, v):
        return v // 4 if self.user else v

    def find(self, v):
        for e in self.elems:
            if self.key(e) == self.key(v):
                return e
        return None

    def add(self, v):
        self.elems.append(v)
        self.elems.sort(key=self.key)

    def remove(self, e):
        self.elems.remove(e)


def build_from_pre_in(pre, ino):
    """the unique binary tree with these pre-/in-order sequences (values distinct), or None"""
    if len(pre) != len(ino) or sorted(pre) != sorted(ino) or len(set(ino)) != len(ino):
        return None
    pos = {v: i for i, v in enumerate(ino)}
    it = iter(pre)
    nxt = [next(it, None)]

    def rec(lo, hi):
        if lo >= hi:
            return ()
        v = nxt[0]
        if v is None or not (lo <= pos[v] < hi):
            raise ValueError
        nxt[0] = next(it, None)
        l = rec(lo, pos[v])
        r = rec(pos[v] + 1, hi)
        return (l, v, r)
    try:
        t = rec(0, len(ino))
    except ValueError:
        return None
    return t if nxt[0] is None else None


def post_of(t):
    res = []
    stack = [(t, False)]
    while stack:
        n, done = stack.pop()
        if n == ():
            continue
        if done:
            res.append(n[1])
        else:
            stack.append((n, True)); stack.append((n[2], False)); stack.append((n[0], False))
    return res


def parse_dump(o):
    # "T pre: 1 2 in: 1 2 post: 2 1 len:2"
    try:
        body = o[len('T pre:'):]
        pre, rest = body.split(' in:', 1)
        ino, rest = rest.split(' post:', 1)
        post, ln = rest.split(' len:', 1)
        return [int(x) for x in pre.split()], [int(x) for x in ino.split()], [int(x) for x in post.split()], int(ln)
    except Exception:
        return None


def spec(lines, out):
    v = []
    pos = [0]

    def nxt():
        if pos[0] < len(out):
            pos[0] += 1
            return out[pos[0] - 1]
        return '<eof>'

    def take_dtors():
        ds = []
        while pos[0] < len(out) and out[pos[0]].startswith('dtor '):
            ds.append(int(out[pos[0]].split()[1])); pos[0] += 1
        return ds

    A = None            # abstract set, None = NULL handle
    it = None           # abstract iterator: dict(cur=value or None, removed=bool, last=key of last position)
    last_dump = ([], [], [], -1)

    def bad(clause, msg):
        v.append((clause, msg))

    for ln in lines:
        t = ln.split()
        if not t:
            continue
        op = t[0]
        if op in ('new', 'ins', 'rm', 'clear', 'free'):
            it = None
        ds = take_dtors()
        o = nxt()
        if o.startswith('FAULT') or o == '<eof>':
            bad('fault', 'crash / sanitizer abort at "%s" (%s)' % (ln, o)); return v
        if o == 'bad-op':
            continue
        exp_ds = []
        if op == 'new':
            A = Abs(t[1] == '1', t[2] == 'user')
            if o != '= ok':
                bad('set', '%s -> %s' % (ln, o))
        elif op == 'ins':
            x = int(t[1])
            if A is None or x == 0:
                exp = -EINVAL
            elif A.find(x) is not None:
                exp = -EEXIST
            else:
                exp = 0; A.add(x)
            if o != '= %d' % exp:
                far = A is not None and not A.user
                bad('ptrcmp' if far and x != 0 else 'set', '%s -> %s, expected %d (content %s)' % (ln, o, exp, A.elems if A else None))
                return v
        elif op == 'rm':
            x = int(t[1])
            if A is None or not A.elems or x == 0:
                exp = -EINVAL
            else:
                e = A.find(x)
                if e is None:
                    exp = -ENOENT
                else:
                    exp = 0; A.remove(e)
                    if A.dtor:
                        exp_ds = [e]
            if o != '= %d' % exp:
                bad('set', '%s -> %s, expected %d' % (ln, o, exp)); return v
        elif op == 'find':
            x = int(t[1])
            e = A.find(x) if (A is not None and x != 0) else None
            if o != ('= nil' if e is None else '= %d' % e):
                bad('set', '%s -> %s, expected %s' % (ln, o, e))
        elif op == 'len':
            exp = -EINVAL if A is None else len(A.elems)
            if o != '= %d' % exp:
                bad('len', '%s -> %s, expected %d' % (ln, o, exp))
        elif op == 'clear':
            if A is None or not A.elems:
                exp = -EINVAL
            else:
                exp = 0
                exp_ds = list(A.elems) if A.dtor else []
                A.elems = []
            if o != '= %d' % exp:
                bad('set', '%s -> %s, expected %d' % (ln, o, exp))
        elif op == 'free':
            if A is not None:
                exp_ds = list(A.elems) if A.dtor else []
            A = None
            if o != '= 0 null':
                bad('set', '%s -> %s' % (ln, o))
        elif op in ('trav', 'iterate'):
            a = 1 if op == 'iterate' else 2
            order = 'pre' if op == 'iterate' else t[1]
            stop = (int(t[a]), int(t[a + 1])) if len(t) == a + 2 else None
            if not o.startswith('seq'):
                bad('order', '%s -> %s' % (ln, o)); return v
            seq = [int(x) for x in o.split()[1:]]
            r = nxt()
            full = {'pre': last_dump[0], 'in': last_dump[1], 'post': last_dump[2]}[order]
            if A is None:
                exp_seq, exp_r = [], -EINVAL
            elif stop is not None and stop[0] < len(full) and stop[1] != 0:
                exp_seq, exp_r = full[:stop[0] + 1], (stop[1] if stop[1] < 0 else 0)
            else:
                exp_seq, exp_r = full, 0
            if seq != exp_seq or r != '= %d' % exp_r:
                bad('order', '%s -> %s / %s, expected %s / %d' % (ln, seq, r, exp_seq, exp_r))
        elif op == 'it':
            sub = t[1]
            if sub == 'new':
                if A is not None and A.elems:
                    it = {'cur': A.elems[0], 'removed': False}
                    exp = '= itr'
                else:
                    it = None; exp = '= nil'
                if o != exp:
                    bad('iter', '%s -> %s, expected %s' % (ln, o, exp)); return v
            elif sub == 'get':
                exp = '= nil' if (it is None or it['removed']) else '= %d' % it['cur']
                if o != exp:
                    bad('iter', '%s -> %s, expected %s (content %s)' % (ln, o, exp, A.elems if A else None))
            elif sub == 'rm':
                if it is None or it['removed']:
                    exp = -EINVAL
                else:
                    exp = 0
                    A.remove(it['cur'])
                    if A.dtor:
                        exp_ds = [it['cur']]
                    it['removed'] = True
                if o != '= %d' % exp:
                    bad('iter', '%s -> %s, expected %d' % (ln, o, exp)); return v
            elif sub == 'next':
                if it is None:
                    exp = '= %d end' % -EINVAL
                else:
                    # the next element: the smallest one above the position the iterator was at
                    k = A.key(it['cur'])
                    above = [e for e in A.elems if A.key(e) > k]
                    if above:
                        it = {'cur': above[0], 'removed': False}; exp = '= 0 live'
                    else:
                        it = None; exp = '= 0 end'
                if o != exp:
                    bad('iter', '%s -> %s, expected %s (content %s)' % (ln, o, exp, A.elems if A else None)); return v
        if sorted(ds) != sorted(exp_ds) or (op != 'clear' and op != 'free' and ds != exp_ds):
            bad('dtor', '%s: destructor called on %s, expected %s' % (ln, ds, exp_ds))
        d = nxt()
        pd = parse_dump(d) if d.startswith('T pre:') else None
        if pd is None:
            bad('fault', 'no state dump after "%s" (%s)' % (ln, d)); return v
        last_dump = pd
        pre, ino, post, n = pd
        want = [] if A is None else A.elems
        if ino != want:
            bad('order', 'after "%s": in-order traversal %s, content in ascending order %s' % (ln, ino, want)); return v
        if n != (-1 if A is None else len(want)):
            bad('len', 'after "%s": len %d, %d elements' % (ln, n, len(want)))
        tr = build_from_pre_in(pre, ino)
        if tr is None or post_of(tr) != post:
            bad('order', 'after "%s": pre %s / in %s / post %s are not the traversals of one binary tree' % (ln, pre, ino, post))
    return v


def wellformed(lines):
    for ln in lines:
        t = ln.split()
        try:
            if t[0] == 'new':
                if len(t) != 3 or t[1] not in ('0', '1') or t[2] not in ('user', 'default'):
                    return False
            elif t[0] in ('ins', 'rm', 'find'):
                if len(t) != 2 or not (0 <= int(t[1]) < 2**64):
                    return False
            elif t[0] in ('len', 'clear', 'free'):
                if len(t) != 1:
                    return False
            elif t[0] == 'trav':
                if len(t) not in (2, 4) or t[1] not in ('pre', 'in', 'post'):
                    return False
                if len(t) == 4 and (int(t[2]) < 0 or abs(int(t[3])) > 1000):
                    return False
            elif t[0] == 'iterate':
                if len(t) not in (1, 3):
                    return False
                if len(t) == 3 and (int(t[1]) < 0 or abs(int(t[2])) > 1000):
                    return False
            elif t[0] == 'it':
                if len(t) != 2 or t[1] not in ('new', 'next', 'get', 'rm'):
                    return False
            else:
                return False
        except (IndexError, ValueError):
            return False
    return True


def nontrivial(lines, out):
    if any(o.startswith('dtor') for o in out):
        return True
    return sum(1 for l in lines if l.startswith('ins')) >= 3 and any(l.startswith('rm') or l == 'it rm' for l in lines)


def known_match(k, lines, msg):
    return False
