"""C11 — ordered set (BST): set semantics, sorted iteration, right destructor target."""
import os, sys, itertools
ID = 'C11'
MODEL = 'bst'
PROPS_MODULE = 'Lm.Props.C11'
PROPS_FILE = 'Lm/Props/C11.lean'
HARNESS_NAME = 'bst_harness'
HARNESS_SRC = 'bst_harness.c'
LIB_SRCS = ['Lib/structs/bst.c', 'Lib/utils/mem.c', 'Lib/utils/log.c']
RULE = ('scripts over new(dtor?,user|default comparator)/ins/rm/find/len/clear/free/trav/iterate/it new|next|get|rm; '
        'values are integers used as pointers; user comparator orders by v/4 (distinct pointers may compare equal), '
        'default-comparator pools contain pointers >= 2^31, 2^32 and 2^63 apart; every insertion order of K distinct '
        'elements for K <= 6 (thorough: 7), each followed by every single removal and by every '
        'iterate-with-removal pattern (K <= 5; quick K = 6 / thorough K = 7: all-ones, alternating and random patterns); '
        'far-apart pointer triples inserted in all pair and triple orders; random scripts with mixed ops; non-trivial = a destructor ran or >= 3 '
        'elements were inserted and one removed')
EXHAUSTIVE = {'quick': True, 'thorough': True}

EINVAL, EEXIST, ENOENT = 22, 17, 2


def gen_fragments():
    import gen_bst
    ch = gen_bst.generate(os.path.join(os.path.dirname(os.path.dirname(os.path.dirname(os.path.abspath(__file__)))), 'lean', 'Lm', 'Generated'))
    return 'Bst.lean ' + ('regenerated (changed)' if ch else 'unchanged')


FAR = [1, 2, 5, 6, 2**31 - 1, 2**31, 2**31 + 5, 2**32 - 1, 2**32, 2**32 + 1, 2**32 + 5, 2**33, 2**33 + 5, 3 * 2**32,
       3 * 2**32 + 5, 2**40 + 5, 2**63 - 1, 2**63, 2**63 + 5, 2**64 - 2**32, 2**64 - 2**31, 2**64 - 2, 2**64 - 1]


def one_random(rng, n_ops):
    user = rng.random() < 0.5
    lines = ['new %d %s' % (rng.random() < 0.7, 'user' if user else 'default')]
    if user:
        pool = [rng.randrange(0, 64) for _ in range(rng.randrange(3, 14))] + [0]
    elif rng.random() < 0.6:
        pool = rng.sample(FAR, rng.randrange(3, 12)) + [0]
    else:
        base = rng.choice([0, 2**31, 2**32, 2**63])
        pool = [(base * rng.randrange(0, 4) + rng.randrange(0, 12)) % 2**64 for _ in range(rng.randrange(3, 12))]
    it_live = False
    for _ in range(n_ops):
        r = rng.random()
        if it_live and r < 0.6:
            lines.append(rng.choice(['it get', 'it next', 'it rm', 'it next', 'it get', 'it rm', 'len', 'trav in']))
            continue
        if r < 0.40:
            lines.append('ins %d' % rng.choice(pool)); it_live = False
        elif r < 0.55:
            lines.append('rm %d' % rng.choice(pool)); it_live = False
        elif r < 0.63:
            lines.append('find %d' % rng.choice(pool))
        elif r < 0.67:
            lines.append('len')
        elif r < 0.73:
            o = rng.choice(['trav pre', 'trav in', 'trav post', 'iterate'])
            if rng.random() < 0.4:
                o += ' %d %d' % (rng.randrange(0, 5), rng.choice([1, -1, -5, 7, 0]))
            lines.append(o)
        elif r < 0.83:
            lines.append('it new'); it_live = True
        elif r < 0.90:
            lines.append(rng.choice(['it get', 'it next', 'it rm']))
        elif r < 0.94:
            lines.append('clear'); it_live = False
        elif r < 0.96:
            lines.append('free'); it_live = False
            lines.append('new %d %s' % (rng.random() < 0.7, 'user' if user else 'default'))
        else:
            # a whole iteration with random removals
            lines.append('it new')
            for _ in range(rng.randrange(1, 10)):
                lines.append('it get')
                if rng.random() < 0.5:
                    lines.append('it rm')
                lines.append('it next')
            it_live = True
    if rng.random() < 0.7:
        lines.append(rng.choice(['clear', 'free']))
    return lines


def perm_scripts(K, which, rng=None, masks='all'):
    """all insertion orders of K distinct elements; which(i) -> (dtor, cmp-name, values); each order
    is followed by every single removal and by iterate-with-removal patterns (`masks`: 'all' = every
    subset of positions, 'none' = no iteration scripts, int n = all-ones, alternating and n random ones)"""
    out = []
    for pi, perm in enumerate(itertools.permutations(range(K))):
        d, cn, vals = which(pi)
        head = ['new %d %s' % (d, cn)] + ['ins %d' % vals[j] for j in perm]
        tag = 'perm%d:%s' % (K, ''.join(map(str, perm)))
        for j in range(K):
            out.append(('%s:rm%d' % (tag, j), head + ['rm %d' % vals[j], 'find %d' % vals[j], 'len', 'free']))
        if masks == 'all':
            ms = range(1 << K)
        elif masks == 'none':
            ms = []
        else:
            full = (1 << K) - 1
            ms = sorted({full, full // 3, (full // 3) << 1 & full} | {rng.randrange(1 << K) for _ in range(masks)})
        for mask in ms:
            ls = list(head) + ['it new']
            for j in range(K):
                ls.append('it get')
                if mask >> j & 1:
                    ls.append('it rm')
                ls.append('it next')
            ls += ['it get', 'len', 'clear' if mask & 1 else 'free']
            out.append(('%s:it%d' % (tag, mask), ls))
    return out


def scripts(rng, tier):
    out = []
    uservals = [8, 17, 26, 35, 40, 49, 54]
    farvals = [5, 2**31 + 5, 2**32 + 5, 2**33 + 5, 2**63 + 5, 2**64 - 3, 3 * 2**32 + 5]

    def which(K):
        if K > 3:
            return lambda i: (1, 'user', uservals) if i % 2 == 0 else (1, 'default', farvals)
        return lambda i: [(1, 'user', uservals), (1, 'default', farvals), (0, 'default', farvals)][i % 3]
    for K in range(1, 6):
        out += perm_scripts(K, which(K))
    if tier == 'quick':
        out += perm_scripts(6, which(6), rng, masks=1)
    else:
        out += perm_scripts(6, which(6))
        out += perm_scripts(7, which(7), rng, masks=2)
    # default comparator: pairs must keep their relative order whatever else is in the set
    # (differences in (2^31, 2^32) and multiples of 2^32 are the interesting distances)
    for i in range(60 if tier == 'quick' else 600):
        a = rng.choice([1, 10, 2**31, 2**32 + 7, 2**40, 2**63 - 5])
        d1 = rng.randrange(2**30, 2**31) if i % 3 else rng.choice([2**31, 2**32, 2**33])
        d2 = rng.randrange(2**30, 2**31) if i % 3 != 1 else rng.choice([2**31, 2**32, 3 * 2**31])
        tri = [a, a + d1, a + d1 + d2]
        ls = ['new %d default' % (i % 2)]
        for pair in ((1, 2), (0, 2), (0, 1)):
            ls += ['ins %d' % tri[pair[0]], 'ins %d' % tri[pair[1]], 'clear']
        for perm in rng.sample(list(itertools.permutations(range(3))), 3):
            ls += ['ins %d' % tri[j] for j in perm] + ['find %d' % tri[0], 'clear']
        out.append(('cons:%d' % i, ls))
    n = 3000 if tier == 'quick' else 20000
    for i in range(n):
        out.append(('rnd:%d' % i, one_random(rng, rng.randrange(5, 70 if tier == 'quick' else 250))))
    return out


# ------------------------------------------------------------------------------------------------
# independent oracle: a sorted list of elements

class Abs:
    """the abstract set: `elems` is the expected in-order sequence.  With the user comparator the
    order is prescribed (ascending v // 4).  With the library's default comparator the property only
    demands that distinct pointers are distinct elements and that they are ordered *consistently*:
    the order is learnt from the implementation's in-order dumps and every pair must keep the
    relative order it was first seen in, for the whole script."""

    def __init__(self, dtor, user):
        self.dtor, self.user = dtor, user
        self.elems = []
        self.before = set()       # default comparator: pairs (a, b) observed with a before b

    def key(self, v):
        return v // 4 if self.user else v

    def find(self, v):
        for e in self.elems:
            if self.key(e) == self.key(v):
                return e
        return None

    def add(self, v):
        self.elems.append(v)
        if self.user:
            self.elems.sort(key=self.key)

    def remove(self, e):
        self.elems.remove(e)

    def check_inorder(self, ino):
        """-> error text or None; adopts the observed order for the default comparator"""
        if self.user:
            return None if ino == self.elems else 'in-order traversal %s, content in ascending comparator order %s' % (ino, self.elems)
        if sorted(ino) != sorted(self.elems):
            return 'in-order traversal %s is not the content %s' % (ino, sorted(self.elems))
        for i in range(len(ino)):
            for j in range(i + 1, len(ino)):
                if (ino[j], ino[i]) in self.before:
                    return 'pointers %d and %d are not ordered consistently: in-order traversal %s, earlier %d came first' % (
                        ino[i], ino[j], ino, ino[j])
        for i in range(len(ino)):
            for j in range(i + 1, len(ino)):
                self.before.add((ino[i], ino[j]))
        self.elems = list(ino)
        return None


def build_from_pre_in(pre, ino):
    """the unique binary tree with these pre-/in-order sequences (values distinct), or None"""
    if len(pre) != len(ino) or sorted(pre) != sorted(ino) or len(set(ino)) != len(ino):
        return None
    pos = {v: i for i, v in enumerate(ino)}
    it = iter(pre)
    nxt = [next(it, None)]

    def rec(lo, hi):
        if lo >= hi:
            return ()
        v = nxt[0]
        if v is None or not (lo <= pos[v] < hi):
            raise ValueError
        nxt[0] = next(it, None)
        l = rec(lo, pos[v])
        r = rec(pos[v] + 1, hi)
        return (l, v, r)
    try:
        t = rec(0, len(ino))
    except ValueError:
        return None
    return t if nxt[0] is None else None


def post_of(t):
    res = []
    stack = [(t, False)]
    while stack:
        n, done = stack.pop()
        if n == ():
            continue
        if done:
            res.append(n[1])
        else:
            stack.append((n, True)); stack.append((n[2], False)); stack.append((n[0], False))
    return res


def parse_dump(o):
    # "T pre: 1 2 in: 1 2 post: 2 1 len:2"
    try:
        body = o[len('T pre:'):]
        pre, rest = body.split(' in:', 1)
        ino, rest = rest.split(' post:', 1)
        post, ln = rest.split(' len:', 1)
        return [int(x) for x in pre.split()], [int(x) for x in ino.split()], [int(x) for x in post.split()], int(ln)
    except Exception:
        return None


def spec(lines, out):
    """Independent oracle (no Lean involved) of the property over the implementation's output."""
    v = []
    pos = [0]

    def nxt():
        if pos[0] < len(out):
            pos[0] += 1
            return out[pos[0] - 1]
        return '<eof>'

    def take_dtors():
        ds = []
        while pos[0] < len(out) and out[pos[0]].startswith('dtor '):
            ds.append(int(out[pos[0]].split()[1])); pos[0] += 1
        return ds

    A = None            # abstract set, None = NULL handle
    it = None           # abstract iterator: dict(pos=index into A.elems, removed=bool)
    last_dump = ([], [], [], -1)

    def bad(clause, msg):
        v.append((clause, msg))

    def is_fail(o):
        """an error return: the property fixes no error code except -EEXIST for a duplicate"""
        return o.startswith('= -') and o[3:].isdigit()

    for ln in lines:
        t = ln.split()
        if not t:
            continue
        op = t[0]
        if op in ('new', 'ins', 'rm', 'clear', 'free'):
            it = None
        ds = take_dtors()
        o = nxt()
        if o.startswith('FAULT') or o == '<eof>':
            bad('fault', 'crash / sanitizer abort at "%s" (%s)' % (ln, o)); return v
        if o == 'bad-op':
            continue
        exp_ds = []
        if op == 'new':
            A = Abs(t[1] == '1', t[2] == 'user')
            if o != '= ok':
                bad('set', '%s -> %s' % (ln, o))
        elif op == 'ins':
            x = int(t[1])
            cont = list(A.elems) if A else None
            if A is None or x == 0:
                ok = is_fail(o)
                exp = 'an error'
            elif A.find(x) is not None:
                ok = o == '= %d' % -EEXIST
                exp = '-EEXIST'
            else:
                ok = o == '= 0'
                exp = '0'
                A.add(x)
            if not ok:
                far = A is not None and not A.user
                bad('ptrcmp' if far and x != 0 else 'set', '%s -> %s, expected %s (content %s)' % (ln, o, exp, cont))
                return v
        elif op == 'rm':
            x = int(t[1])
            e = None if (A is None or x == 0) else A.find(x)
            if e is None:
                if not is_fail(o):
                    bad('set', '%s -> %s, expected an error (no element compares equal; content %s)' % (ln, o, A.elems if A else None)); return v
            else:
                if o != '= 0':
                    bad('set', '%s -> %s, expected 0 (element %d compares equal)' % (ln, o, e)); return v
                A.remove(e)
                if A.dtor:
                    exp_ds = [e]
        elif op == 'find':
            x = int(t[1])
            e = A.find(x) if (A is not None and x != 0) else None
            if o != ('= nil' if e is None else '= %d' % e):
                bad('set', '%s -> %s, expected %s' % (ln, o, e))
        elif op == 'len':
            if A is None:
                if not is_fail(o):
                    bad('len', '%s -> %s on a NULL set' % (ln, o))
            elif o != '= %d' % len(A.elems):
                bad('len', '%s -> %s, expected %d' % (ln, o, len(A.elems)))
        elif op == 'clear':
            if A is None or not A.elems:
                if not (is_fail(o) or o == '= 0'):
                    bad('set', '%s -> %s' % (ln, o))
            else:
                exp_ds = list(A.elems) if A.dtor else []
                A.elems = []
                if o != '= 0':
                    bad('set', '%s -> %s, expected 0' % (ln, o))
        elif op == 'free':
            if A is not None:
                exp_ds = list(A.elems) if A.dtor else []
            A = None
            if o != '= 0 null':
                bad('set', '%s -> %s' % (ln, o))
        elif op in ('trav', 'iterate'):
            a = 1 if op == 'iterate' else 2
            order = 'pre' if op == 'iterate' else t[1]
            stop = (int(t[a]), int(t[a + 1])) if len(t) == a + 2 else None
            if not o.startswith('seq'):
                bad('order', '%s -> %s' % (ln, o)); return v
            seq = [int(x) for x in o.split()[1:]]
            r = nxt()
            full = {'pre': last_dump[0], 'in': last_dump[1], 'post': last_dump[2]}[order]
            if A is None:
                if seq or not is_fail(r):
                    bad('order', '%s on a NULL set -> %s / %s' % (ln, seq, r))
            else:
                if stop is not None and stop[0] < len(full) and stop[1] != 0:
                    exp_seq, exp_r = full[:stop[0] + 1], (stop[1] if stop[1] < 0 else 0)
                else:
                    exp_seq, exp_r = full, 0
                if seq != exp_seq or r != '= %d' % exp_r:
                    bad('order', '%s -> %s / %s, expected %s / %d' % (ln, seq, r, exp_seq, exp_r))
        elif op == 'it':
            sub = t[1]
            if sub == 'new':
                if A is not None and A.elems:
                    it = {'pos': 0, 'removed': False}
                    exp = '= itr'
                else:
                    it = None; exp = '= nil'
                if o != exp:
                    bad('iter', '%s -> %s, expected %s' % (ln, o, exp)); return v
            elif sub == 'get':
                exp = '= nil' if (it is None or it['removed']) else '= %d' % A.elems[it['pos']]
                if o != exp:
                    bad('iter', '%s -> %s, expected %s (content %s)' % (ln, o, exp, A.elems if A else None))
            elif sub == 'rm':
                if it is None or it['removed']:
                    if not is_fail(o):
                        bad('iter', '%s -> %s, expected an error (no current element)' % (ln, o)); return v
                else:
                    e = A.elems[it['pos']]
                    A.remove(e)
                    if A.dtor:
                        exp_ds = [e]
                    it['removed'] = True
                    if o != '= 0':
                        bad('iter', '%s -> %s, expected 0' % (ln, o)); return v
            elif sub == 'next':
                if it is None:
                    if not (is_fail(o[:o.rfind(' ')]) and o.endswith(' end')):
                        bad('iter', '%s without iterator -> %s' % (ln, o)); return v
                else:
                    # the element following the position; after a removal the position already names it
                    p = it['pos'] if it['removed'] else it['pos'] + 1
                    if p < len(A.elems):
                        it = {'pos': p, 'removed': False}; exp = '= 0 live'
                    else:
                        it = None; exp = '= 0 end'
                    if o != exp:
                        bad('iter', '%s -> %s, expected %s (content %s)' % (ln, o, exp, A.elems if A else None)); return v
        if sorted(ds) != sorted(exp_ds) or (op != 'clear' and op != 'free' and ds != exp_ds):
            bad('dtor', '%s: destructor called on %s, expected %s' % (ln, ds, exp_ds))
        d = nxt()
        pd = parse_dump(d) if d.startswith('T pre:') else None
        if pd is None:
            bad('fault', 'no state dump after "%s" (%s)' % (ln, d)); return v
        last_dump = pd
        pre, ino, post, n = pd
        if A is None:
            if pre or ino or post:
                bad('order', 'after "%s": traversals of a NULL set are not empty' % ln)
            continue
        err = A.check_inorder(ino)
        if err:
            bad('order', 'after "%s": %s' % (ln, err)); return v
        if n != len(A.elems):
            bad('len', 'after "%s": len %d, %d elements' % (ln, n, len(A.elems)))
        tr = build_from_pre_in(pre, ino)
        if tr is None or post_of(tr) != post:
            bad('order', 'after "%s": pre %s / in %s / post %s are not the traversals of one binary tree' % (ln, pre, ino, post))
    return v


def wellformed(lines):
    for ln in lines:
        t = ln.split()
        try:
            if t[0] == 'new':
                if len(t) != 3 or t[1] not in ('0', '1') or t[2] not in ('user', 'default'):
                    return False
            elif t[0] in ('ins', 'rm', 'find'):
                if len(t) != 2 or not (0 <= int(t[1]) < 2**64):
                    return False
            elif t[0] in ('len', 'clear', 'free'):
                if len(t) != 1:
                    return False
            elif t[0] == 'trav':
                if len(t) not in (2, 4) or t[1] not in ('pre', 'in', 'post'):
                    return False
                if len(t) == 4 and (int(t[2]) < 0 or abs(int(t[3])) > 1000):
                    return False
            elif t[0] == 'iterate':
                if len(t) not in (1, 3):
                    return False
                if len(t) == 3 and (int(t[1]) < 0 or abs(int(t[2])) > 1000):
                    return False
            elif t[0] == 'it':
                if len(t) != 2 or t[1] not in ('new', 'next', 'get', 'rm'):
                    return False
            else:
                return False
        except (IndexError, ValueError):
            return False
    return True


def nontrivial(lines, out):
    if any(o.startswith('dtor') for o in out):
        return True
    return sum(1 for l in lines if l.startswith('ins')) >= 3 and any(l.startswith('rm') or l == 'it rm' for l in lines)


def known_match(k, lines, msg):
    return False
