"""C10 — ref-counted blocks."""
import os, sys
ID = 'C10'
MODEL = 'mem'
PROPS_MODULE = 'Lm.Props.C10'
PROPS_FILE = 'Lm/Props/C10.lean'
HARNESS_NAME = 'mem_harness'
HARNESS_SRC = 'mem_harness.c'
LIB_SRCS = ['Lib/mem/mem.c', 'Lib/utils/mem.c', 'Lib/utils/log.c']
RULE = ('scripts over new(size,dtor,owner-of)/ref/unref/unrefp/size/null on up to 24 blocks, generated so that every '
        'handle passed is a reference the script holds; sizes sweep 0..8192 (all residues mod 16 in every run); '
        'non-trivial = at least one destructor ran and one block was released by a nested drop or after >=2 refs')
EXHAUSTIVE = {}


def gen_fragments():
    import gen_mem
    ch = gen_mem.generate(os.path.join(os.path.dirname(os.path.dirname(os.path.dirname(os.path.abspath(__file__)))), 'lean', 'Lm', 'Generated'))
    return 'Mem.lean ' + ('regenerated (changed)' if ch else 'unchanged')


def one_script(rng, n_ops, sizes):
    lines = []
    user = []      # refs held by the script per block
    holders = []   # user + live owners
    child = []
    dtor = []
    live = []

    def drop(i):
        holders[i] -= 1
        if holders[i] == 0:
            live[i] = False
            if dtor[i] and child[i] is not None:
                drop(child[i])

    for _ in range(n_ops):
        held = [i for i in range(len(user)) if user[i] > 0 and live[i]]
        r = rng.random()
        if not held or r < 0.3:
            size = rng.choice(sizes)
            d = 1 if rng.random() < 0.7 else 0
            own = None
            if d and held and rng.random() < 0.5:
                own = rng.choice(held)
                user[own] -= 1
            lines.append('new %d %d %s' % (size, d, '-' if own is None else own))
            user.append(1); holders.append(1); child.append(own); dtor.append(bool(d)); live.append(True)
        elif r < 0.5:
            i = rng.choice(held)
            lines.append('ref %d' % i); user[i] += 1; holders[i] += 1
        elif r < 0.85:
            i = rng.choice(held)
            lines.append('%s %d' % (rng.choice(['unref', 'unrefp']), i)); user[i] -= 1; drop(i)
        elif r < 0.95:
            lines.append('size %d' % rng.choice(held))
        else:
            lines.append('null %s' % rng.choice(['ref', 'unref', 'unrefp', 'size']))
    # mostly drop everything at the end so that leak freedom is exercised
    if rng.random() < 0.8:
        for i in range(len(user)):
            while user[i] > 0 and live[i]:
                lines.append('unref %d' % i); user[i] -= 1; drop(i)
    lines.append('end')
    return lines


def scripts(rng, tier):
    out = []
    # every size 0..8192 once per run (all residues modulo the alignment), in chunks
    allsizes = list(range(0, 8193))
    step = 64
    for k in range(0, len(allsizes), step):
        ls = []
        for j, sz in enumerate(allsizes[k:k + step]):
            ls.append('new %d %d -' % (sz, j % 2))
            ls.append('size %d' % j)
        for j in range(len(allsizes[k:k + step])):
            ls.append('unref %d' % j)
        ls.append('end')
        out.append(('sizes:%d' % k, ls))
    # more references than any narrow counter holds (2^16 + a few): the block must survive until the very last one goes
    k = 66000 if tier == 'quick' else 300000
    out.append(('manyrefs', ['new 24 1 -', 'new 40 1 0'] + ['ref 1'] * k + ['unref 1'] * k + ['size 1', 'unref 1', 'end']))
    n = 400 if tier == 'quick' else 8000
    big = [0, 1, 7, 8, 9, 15, 16, 17, 23, 24, 25, 31, 32, 33, 40, 63, 64, 100, 255, 256, 1000, 4095, 4096, 8192]
    for i in range(n):
        sizes = big if rng.random() < 0.5 else [rng.randrange(0, 8193) for _ in range(6)]
        out.append(('rnd:%d' % i, one_script(rng, rng.randrange(4, 60 if tier == 'quick' else 200), sizes)))
    return out


def spec(lines, out):
    """Independent oracle for the property on the implementation's output (no Lean involved):
    alignment, size, null tolerance, destructor/free exactly when the last holder goes, leak freedom."""
    v = []
    it = iter(out)

    def nxt():
        return next(it, '<eof>')
    user, holders, child, dtor, live, size = [], [], [], [], [], []

    def expect_drop(i, acc):
        holders[i] -= 1
        if holders[i] == 0:
            live[i] = False
            if dtor[i]:
                acc.append('dtor %d' % i)
                if child[i] is not None:
                    expect_drop(child[i], acc)
            acc.append('free %d' % i)

    for ln in lines:
        t = ln.split()
        if t[0] == 'new':
            a, b, c, d = nxt(), nxt(), nxt(), nxt()
            if a.startswith('FAULT') or '<eof>' in (a, b, c, d):
                v.append(('fault', 'crash during %s' % ln)); return v
            if not a.startswith('calloc '):
                v.append(('alloc', 'allocation failed for %s: %s' % (ln, a))); return v
            if b != 'ptr%A 0':
                v.append(('aligned', '%s returned a pointer with %s' % (ln, b)))
            if c != 'hdr 0':
                v.append(('size', '%s: header not recovered (%s)' % (ln, c)))
            own = None if t[3] == '-' else int(t[3])
            if own is not None:
                user[own] -= 1
            user.append(1); holders.append(1); child.append(own); dtor.append(t[2] != '0'); live.append(True); size.append(int(t[1]))
        elif t[0] == 'ref':
            i = int(t[1]); o = nxt()
            if o != '= b%d' % i:
                v.append(('ref', '%s -> %s' % (ln, o)))
            user[i] += 1; holders[i] += 1
        elif t[0] in ('unref', 'unrefp'):
            i = int(t[1]); acc = []
            user[i] -= 1
            expect_drop(i, acc)
            got = []
            while True:
                o = nxt()
                if o.startswith('= ') or o.startswith('FAULT') or o == '<eof>':
                    break
                got.append(o)
            if got != acc:
                v.append(('destroy_once', '%s: destructor/free events %s, expected %s' % (ln, got, acc)))
            if o != '= nil':
                v.append(('fault' if o.startswith('FAULT') or o == '<eof>' else 'unref', '%s -> %s' % (ln, o)))
                if o != '= nonnull':
                    return v
        elif t[0] == 'size':
            i = int(t[1]); o = nxt()
            if o != '= %d' % size[i]:
                v.append(('size', '%s -> %s, requested %d' % (ln, o, size[i])))
        elif t[0] == 'null':
            o = nxt()
            exp = {'ref': '= nil', 'unref': '= nil', 'unrefp': '= void', 'size': '= 0'}[t[1]]
            if o != exp:
                v.append(('null', '%s -> %s' % (ln, o)))
        elif t[0] == 'end':
            o = nxt()
            if o != 'live %d' % sum(1 for x in live if x):
                v.append(('leak', 'outstanding allocations: %s, referenced blocks: %d' % (o, sum(1 for x in live if x))))
    return v


def wellformed(lines):
    """the documented precondition: every handle passed is a reference the script still holds"""
    user, holders, child, dtor, live = [], [], [], [], []

    def drop(i):
        holders[i] -= 1
        if holders[i] == 0:
            live[i] = False
            if dtor[i] and child[i] is not None:
                drop(child[i])
    for ln in lines:
        t = ln.split()
        try:
            if t[0] == 'new':
                own = None if t[3] == '-' else int(t[3])
                if own is not None:
                    if t[2] == '0' or own >= len(user) or user[own] < 1 or not live[own]:
                        return False
                    user[own] -= 1
                user.append(1); holders.append(1); child.append(own); dtor.append(t[2] != '0'); live.append(True)
            elif t[0] in ('ref', 'unref', 'unrefp', 'size'):
                i = int(t[1])
                if i >= len(user) or user[i] < 1 or not live[i]:
                    return False
                if t[0] == 'ref':
                    user[i] += 1; holders[i] += 1
                elif t[0] != 'size':
                    user[i] -= 1; drop(i)
        except (IndexError, ValueError):
            return False
    return True


def nontrivial(lines, out):
    return any(o.startswith('dtor') for o in out) and (sum(1 for l in lines if l.startswith('ref')) >= 2
                                                       or any(l.split()[0] == 'new' and l.split()[3] != '-' for l in lines))


def known_match(k, lines, msg):
    return False
