"""C14 — contexts on different threads are independent; modules are thread-confined"""
import os, json, re
from props.coreplug import *
from props import corelib, coreoracles
import vlib
ID = 'C14'
PROPS_MODULE = 'Lm.Props.C14'
PROPS_FILE = 'Lm/Props/C14.lean'
RULE = ('random programs (mostly valid calls + a malformed stream) with nested callback bodies up to depth 2 over ctx/lifecycle/pubsub/'
        'descriptor sources plus calls issued by a helper thread that holds another context or none (`foreign …`) and messages addressed '
        'to a module of another thread\'s context, possibly carrying the name of a local module (`xtell …`); the same scripts are then run '
        'concurrently, 3 contexts on 3 threads of one process, and each thread\'s trace must equal its solo trace; a ThreadSanitizer '
        'build repeats the concurrent runs; non-trivial = a cross-thread call was made and a callback ran')
ALPHA = ['ctx', 'reg', 'reg', 'life', 'life', 'loop', 'loop', 'ps', 'ps', 'sub', 'fd', 'fd', 'foreign', 'foreign', 'foreign', 'become', 'batch', 'stash', 'task']
N_QUICK, N_THOROUGH, MAXLEN = 240, 4000, 45
GROUP = 3


def scripts(rng, tier):
    n = N_QUICK if tier == 'quick' else N_THOROUGH
    return [('rnd:%d' % i, corelib.gen_script(rng, ALPHA, rng.randrange(5, MAXLEN))) for i in range(n)]


spec = coreoracles.c14


def nontrivial(lines, out):
    return any(l.startswith(('foreign', 'xtell')) for l in lines) and any(o.startswith('INVOKE') for o in out)


def tsan_reports(err):
    """ThreadSanitizer reports that involve library code (frames under Lib/)"""
    reps = []
    for blk in re.split(r'(?m)^={18}\n', err):
        if 'WARNING: ThreadSanitizer' in blk and '/Lib/' in blk:
            reps.append(blk.strip()[:2500])
    return reps


def extra_stage(rep, tier, seed, scripts, solo, broken):
    out = []
    # corpus scripts are included: they carry the witnesses of earlier findings
    use = [(sid, ls) for sid, ls in scripts if not any(l.startswith(('reg_tmr', 'tick', 'batch_to', 'tb ')) for l in ls)]
    if tier == 'quick':
        use = use[:150]
    # 1. concurrent run, ASan+UBSan
    exe, log = vlib.build_harness('multi_harness', 'multi_harness.c', LIB_SRCS, extra=HARNESS_EXTRA, defines=DEFINES)
    if exe is None:
        rep.infra_error = 'multi_harness does not compile against /repo: ' + log[-1500:]
        return out
    import subprocess
    path = os.path.join(vlib.WORK, 'run', 'C14multi_%d.ops' % os.getpid())
    os.makedirs(os.path.dirname(path), exist_ok=True)
    open(path, 'w').write(vlib.scripts_text(use))
    e = dict(os.environ)
    e['ASAN_OPTIONS'] = 'detect_leaks=0:abort_on_error=0:exitcode=97:allocator_may_return_null=1'
    e['UBSAN_OPTIONS'] = 'print_stacktrace=1:halt_on_error=1:exitcode=98'
    rc, so, se = vlib.sh([exe, path, str(GROUP)], timeout=1800, env=e)
    conc = vlib.split_outputs(so)
    diffs = 0
    first = None
    for i, (sid, ls) in enumerate(use):
        a = [x for x in solo.get(sid, ['<no output>']) if not x.startswith('LEAKCHECK')]
        b = [x for x in conc.get(sid, ['<no output>']) if not x.startswith('LEAKCHECK')]
        d = vlib.first_diff(a, b)
        if d is not None:
            diffs += 1
            if first is None:
                g0 = (i // GROUP) * GROUP
                first = {'script': sid, 'at': d, 'solo': a[max(0, d - 3):d + 3], 'concurrent': b[max(0, d - 3):d + 3],
                         'group': [{'id': s2, 'script': l2} for s2, l2 in use[g0:g0 + GROUP]]}
    rep.cov['concurrent_scripts'] = len(use)
    rep.cov['concurrent_groups'] = (len(use) + GROUP - 1) // GROUP
    rep.cov['concurrent_vs_solo_differences'] = diffs
    if first:
        p = vlib.save_replay(ID, 'concurrent_0.json', {'broken': 'a context run concurrently with %d others produced a different trace than alone' % (GROUP - 1),
                                                      'first': first, 'seed': seed, 'stderr_tail': se[-1500:]})
        out.append((p, 'independence violated: script %s behaves differently when other contexts run on other threads' % first['script'], True))
    # 2. ThreadSanitizer
    texe, tlog = vlib.build_harness('multi_harness_tsan', 'multi_harness.c', LIB_SRCS, extra=HARNESS_EXTRA, defines=DEFINES, sanitize='thread')
    if texe is None:
        rep.infra_error = 'TSan build of multi_harness failed: ' + tlog[-1500:]
        return out
    tuse = use[:90] if tier == 'quick' else use[:1500]
    open(path, 'w').write(vlib.scripts_text(tuse))
    e2 = dict(os.environ)
    e2['TSAN_OPTIONS'] = 'halt_on_error=0:second_deadlock_stack=1:report_signal_unsafe=0:exitcode=0'
    rc, so, se = vlib.sh([texe, path, str(GROUP)], timeout=3000, env=e2)
    os.unlink(path)
    reps = tsan_reports(se)
    rep.cov['tsan_scripts'] = len(tuse)
    rep.cov['tsan_reports_in_Lib'] = len(reps)
    if reps:
        p = vlib.save_replay(ID, 'tsan_0.json', {'broken': 'ThreadSanitizer report with library frames while %d contexts ran concurrently' % GROUP,
                                                'report': reps[0], 'reports': len(reps), 'seed': seed,
                                                'scripts': [{'id': s2, 'script': l2} for s2, l2 in tuse[:GROUP * 2]]})
        out.append((p, 'unsynchronised access to shared library state: ' + (re.search(r'WARNING: ThreadSanitizer: ([^\n]*)', reps[0]).group(1) if re.search(r'WARNING: ThreadSanitizer: ([^\n]*)', reps[0]) else 'report'), True))
    out += task_stress(rep, ID, tier, 'thread')
    return out
