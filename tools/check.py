#!/usr/bin/env python3
"""Entry point of every check:  python3 tools/check.py <ID> --tier quick|thorough [--replay path]

exit 0: property held on everything explored; exit 1 + "VIOLATION property=<id> replay=<path>";
exit 2: infrastructure error (never reported as a violation)."""
import os, sys, json, random, argparse, importlib, time, collections
sys.path.insert(0, os.path.dirname(os.path.abspath(__file__)))
import vlib
from vlib import *


def load_plugin(pid):
    return importlib.import_module('props.' + pid.lower())


def run_both(P, exe, scripts, driver_ok, tag):
    impl, ierr = run_impl(exe, scripts, tag, env=getattr(P, 'ENV', None))
    model = None
    if driver_ok:
        mi = getattr(P, 'model_input', None)
        mscripts = [(sid, mi(lines, impl.get(sid, []))) for sid, lines in scripts] if mi else scripts
        model, merr = run_model(P.MODEL, mscripts, extra_args=getattr(P, 'MODEL_ARGS', ()))
    return impl, model, ierr


def eval_script(P, sid, lines, impl, model):
    """-> (spec_violations [(clause,msg)], mismatch or None)"""
    iout = impl.get(sid, ['<no output>'])
    sv = P.spec(lines, iout)
    mm = None
    if model is not None:
        proj = getattr(P, 'project', lambda x: x)
        pp = getattr(P, 'project_pair', None)
        a, b = pp(iout, model.get(sid, ['<no output>'])) if pp else (proj(iout), proj(model.get(sid, ['<no output>'])))
        d = first_diff(a, b)
        if d is not None:
            mm = {'at': d, 'impl': a[max(0, d - 3):d + 3], 'model': b[max(0, d - 3):d + 3]}
    return sv, mm


def main():
    ap = argparse.ArgumentParser()
    ap.add_argument('prop')
    ap.add_argument('--tier', default=os.environ.get('VERIF_TIER', 'quick'))
    ap.add_argument('--replay')
    a = ap.parse_args()
    seed = int(os.environ.get('VERIF_SEED', '1'))
    P = load_plugin(a.prop)
    if not a.replay:
        # replays of earlier runs would be mistaken for results of this one
        import shutil
        shutil.rmtree(os.path.join(VERIF, 'replays', P.ID), ignore_errors=True)
    if hasattr(P, 'main'):
        # properties with a dedicated flow (thread pool, multi-context)
        sys.exit(P.main(a.tier, seed, a.replay))
    rep = Report(P.ID, a.tier, seed)
    rng = random.Random(seed * 1000003 + 17)

    ps = proof_stage(rep, P.PROPS_MODULE, P.PROPS_FILE, getattr(P, 'gen_fragments', None))
    broken = ps['broken']

    exe, log = build_harness(P.HARNESS_NAME, P.HARNESS_SRC, P.LIB_SRCS, extra=getattr(P, 'HARNESS_EXTRA', ()),
                             defines=getattr(P, 'DEFINES', ()))
    if exe is None:
        rep.infra_error = 'harness does not compile against /repo: ' + log[-1500:]
        sys.exit(rep.finish())

    known = load_known(P.ID)

    if a.replay:
        txt = open(a.replay).read()
        if a.replay.endswith('.json'):
            j = json.loads(txt)
            lines = j.get('script', [])
            print(json.dumps({k: v for k, v in j.items() if k != 'script'}, indent=1))
        else:
            lines = [l for l in txt.splitlines() if l and not l.startswith('# ')]
        scripts = [('replay', lines)]
        impl, model, ierr = run_both(P, exe, scripts, ps['driver_ok'], 'replay')
        sv, mm = eval_script(P, 'replay', lines, impl, model)
        print('--- script'); print('\n'.join(lines))
        print('--- implementation'); print('\n'.join(impl.get('replay', [])))
        if model is not None:
            print('--- model'); print('\n'.join(model.get('replay', [])))
        if ierr.strip():
            print('--- sanitizer/stderr'); print(ierr[-3000:])
        for c, m in sv:
            print('SPEC-VIOLATION %s: %s' % (c, m))
        if mm:
            print('MISMATCH', json.dumps(mm))
        if sv or mm or broken:
            print('VIOLATION property=%s replay=%s' % (P.ID, a.replay))
            sys.exit(1)
        sys.exit(0)

    # ---- scripts: corpus first, then generated ----
    scripts = []
    cdir = os.path.join(VERIF, 'corpus', P.ID)
    if os.path.isdir(cdir):
        for f in sorted(os.listdir(cdir)):
            if f.endswith('.ops'):
                ls = [l for l in open(os.path.join(cdir, f)).read().splitlines() if l and not l.startswith('#')]
                scripts.append(('corpus:' + f, ls))
    gen = P.scripts(rng, a.tier)
    scripts += gen
    rep.cov['rule'] = P.RULE
    t_run = time.time()
    impl, model, ierr = run_both(P, exe, scripts, ps['driver_ok'], P.ID)
    rep.notes.append('differential run: %.1fs' % (time.time() - t_run))

    seen = set()
    hist = collections.Counter()
    spec_hits = collections.OrderedDict()   # clause -> (sid, lines, msg)
    mismatches = []
    faults = 0
    for sid, lines in scripts:
        sv, mm = eval_script(P, sid, lines, impl, model)
        rep.cov['evaluations'] += 1
        h = script_hash(lines)
        if h not in seen and P.nontrivial(lines, impl.get(sid, [])):
            rep.cov['distinct_nontrivial'] += 1
        seen.add(h)
        for l in lines:
            hist[l.split()[0]] += 1
        if any(x.startswith('FAULT') for x in impl.get(sid, [])):
            faults += 1
        for c, m in sv:
            kf = [k for k in known if k['clause'] == c and P.known_match(k, lines, m)]
            if kf:
                if not any(kh[0] == kf[0]['id'] for kh in rep.known_hits):
                    rep.known(kf[0]['id'], kf[0]['what'])
                continue
            spec_hits.setdefault(c, (sid, lines, m))
        if mm and not sv:
            mismatches.append((sid, lines, mm))
    rep.cov['op_histogram'] = dict(hist)
    rep.cov['impl_faults'] = faults
    rep.cov['samples'] = [{'id': sid, 'script': lines[:40]} for sid, lines in scripts[:2] + scripts[-1:]]
    rep.cov['exhaustive'] = bool(getattr(P, 'EXHAUSTIVE', {}).get(a.tier))
    rep.cov['traces_validated_against_impl'] = len(scripts)
    rep.cov['correspondence_mismatches'] = len(mismatches)
    if model is not None:
        rep.cov['scripts_leaving_the_model_scope'] = sum(1 for sid, _ in scripts if any(o.startswith('UNMODELLED') for o in model.get(sid, [])))
    for k in known:
        # known findings are replayed by a dedicated stream so that they are printed even when the
        # main stream avoids their trigger
        w = k.get('witness')
        if w and not any(kh[0] == k['id'] for kh in rep.known_hits):
            ls = [l for l in open(os.path.join(VERIF, w)).read().splitlines() if l and not l.startswith('#')]
            i2, m2, _ = run_both(P, exe, [('k', ls)], False, 'known')
            sv = P.spec(ls, i2.get('k', []))
            if any(c == k['clause'] and P.known_match(k, ls, m) for c, m in sv):
                rep.known(k['id'], k['what'])
            else:
                rep.notes.append('known finding %s no longer reproduces on its witness' % k['id'])

    if hasattr(P, 'extra_stage'):
        # property-specific stages beyond the single-context correspondence (C14: concurrent contexts, TSan)
        for rv in P.extra_stage(rep, a.tier, seed, scripts, impl, broken):
            rep.violation(*rv)

    # ---- verdicts ----
    wf = getattr(P, 'wellformed', lambda ls: True)

    def one(lines, tag):
        if not wf(lines):
            return [], None      # ddmin candidate violating the API precondition: not a test
        i2, m2, _ = run_both(P, exe, [('m', lines)], ps['driver_ok'], tag)
        return eval_script(P, 'm', lines, i2, m2)

    for n, (c, (sid, lines, msg)) in enumerate(list(spec_hits.items())[:3]):
        small = ddmin(lines, lambda ls: any(cc == c for cc, _ in one(ls, 'dd')[0]))
        sv, _ = one(small, 'dd')
        msg2 = next((m for cc, m in sv if cc == c), msg)
        p = save_replay(P.ID, 'spec_%s_%d.ops' % (c, n), '# property %s clause %s: %s\n# found in script %s (seed %d)\n%s\n'
                        % (P.ID, c, msg2, sid, seed, '\n'.join(small)))
        rep.violation(p, 'clause %s violated by the implementation: %s' % (c, msg2), True)
    if mismatches and not spec_hits:
        sid, lines, mm = mismatches[0]
        small = ddmin(lines, lambda ls: one(ls, 'dd')[1] is not None)
        _, mm2 = one(small, 'dd')
        p = save_replay(P.ID, 'correspondence_0.json', {
            'broken': 'correspondence between lmdriver %s and the implementation' % P.MODEL,
            'first_divergence': mm2 or mm, 'script': small, 'found_in': sid, 'seed': seed,
            'mismatching_scripts': len(mismatches)})
        rep.violation(p, 'model and implementation diverge (no property clause violated on the explored scripts)', False)
    if broken and not spec_hits:
        p = save_replay(P.ID, 'obligation_0.json', {'broken': broken, 'seed': seed,
                        'searched_scripts': len(scripts), 'note': 'no failing input found by the search'})
        rep.violation(p, 'proof obligation no longer checks: %s' % broken[0]['what'], False)
    elif broken:
        rep.notes.append({'broken_obligations': broken})
    sys.exit(rep.finish())


if __name__ == '__main__':
    main()
