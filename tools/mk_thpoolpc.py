#!/usr/bin/env python3
"""Writes lean/Lm/Inv/ThpoolPc.lean: the program-counter classes of the thread-pool transition system, each with one simp
equation per constructor of `Pc` (read from lean/Lm/Thpool.lean).  Mechanical; rerun after adding a program counter."""
import os, re
V = os.path.dirname(os.path.dirname(os.path.abspath(__file__)))
src = open(os.path.join(V, 'lean', 'Lm', 'Thpool.lean')).read()
body = src[src.index('inductive Pc'):src.index('deriving DecidableEq, Repr', src.index('inductive Pc'))]
ctors = []
for line in body.split('\n')[1:]:
    line = line.split('--')[0]
    if '/-' in line: line = line.split('/-')[0]
    for m in re.finditer(r'\|\s*(\w+)', line):
        ctors.append(m.group(1))
W = ['wLock', 'wLoop', 'wWait', 'wWaiting', 'wBreakChk', 'wBreakLen', 'wDequeue', 'wUnlock', 'wInc', 'wCall', 'wInTask', 'wDec',
     'wExitDec', 'wExitBcast', 'wExitUnlock', 'wRet', 'wDone']
N = ['nLock', 'nShutChk', 'nPermUnlock', 'nLazy0', 'nLazy1', 'nLazy2', 'nCreate', 'nInsert', 'nFailUnlock', 'nEnq', 'nSignal', 'nUnlock',
     'nRetOk', 'nRetPerm', 'nRetFail']
S = ['sShutChk', 'sLock', 'sLazy0', 'sLazy1', 'sLazy2', 'sCreate', 'sInsert', 'sFailUnlock', 'sPermUnlock', 'sEnq', 'sSignal', 'sUnlock',
     'sRetOk', 'sRetPerm', 'sRetFail']
M = ['mNewCreate', 'mNewInsert', 'mNewRet', 'mIdle', 'fLock', 'fSetShut', 'fBcast', 'fAliveChk', 'fWait', 'fWaiting', 'fUnlock', 'fJoinInit',
     'fJoin', 'fCondDestroy', 'fMutDestroy', 'fQueueFree', 'fListFree', 'fFreePool', 'fRet', 'mDone']
assert set(ctors) == set(['none', 'sIdle'] + W + N + S + M), sorted(set(ctors) ^ set(['none', 'sIdle'] + W + N + S + M))
BOOL = [
 ('holds', 'the thread owns the pool mutex',
  ['wLoop', 'wWait', 'wBreakChk', 'wBreakLen', 'wDequeue', 'wUnlock', 'wExitDec', 'wExitBcast', 'wExitUnlock',
   'sShutChk', 'sPermUnlock', 'sLazy0', 'sLazy1', 'sLazy2', 'sCreate', 'sInsert', 'sFailUnlock', 'sEnq', 'sSignal', 'sUnlock',
   'nShutChk', 'nPermUnlock', 'nLazy0', 'nLazy1', 'nLazy2', 'nCreate', 'nInsert', 'nFailUnlock', 'nEnq', 'nSignal', 'nUnlock',
   'fSetShut', 'fBcast', 'fAliveChk', 'fWait', 'fUnlock']),
 ('isW', 'a pool worker thread (any stage, including returned, including inside a `m_thpool_add` it calls from its task)', W + N),
 ('isS', 'a submitter thread inside m_thpool_add', S),
 ('isM', 'thread 0: m_thpool_new / idle / m_thpool_free', M),
 ('preEnq', 'a submitter inside m_thpool_add, before the task is enqueued, on a path that can still reach the enqueue',
  ['sShutChk', 'sLock', 'sLazy0', 'sLazy1', 'sLazy2', 'sCreate', 'sInsert', 'sEnq']),
 ('nPreEnq', 'a worker inside the m_thpool_add it called from its task, before the new task is enqueued',
  ['nShutChk', 'nLock', 'nLazy0', 'nLazy1', 'nLazy2', 'nCreate', 'nInsert', 'nEnq']),
 ('nIn', 'a worker inside the m_thpool_add it called from its task', N),
 ('inTask', 'a worker between the start and the end of a task (including the m_thpool_add calls the task makes)', ['wInTask'] + N),
 ('pastChk', 'inside m_thpool_add, past the shutdown check, still holding the lock: the pool is not shutting down',
  ['sLazy0', 'sLazy1', 'sLazy2', 'sCreate', 'sInsert', 'sEnq', 'sSignal', 'sUnlock', 'sFailUnlock',
   'nLazy0', 'nLazy1', 'nLazy2', 'nCreate', 'nInsert', 'nEnq', 'nSignal', 'nUnlock', 'nFailUnlock']),
 ('held', 'a dequeued task that has not been started yet', ['wUnlock', 'wInc', 'wCall']),
 ('exiting', 'left the worker loop', ['wExitDec', 'wExitBcast', 'wExitUnlock', 'wRet', 'wDone']),
 ('beforeDec', 'a worker that has not yet executed `pool->alive--`',
  ['wLock', 'wLoop', 'wWait', 'wWaiting', 'wBreakChk', 'wBreakLen', 'wDequeue', 'wUnlock', 'wInc', 'wCall', 'wInTask', 'wDec', 'wExitDec'] + N),
 ('gone', 'a worker after its last access to the pool', ['wRet', 'wDone']),
 ('waitingPc', 'inside pthread_cond_wait', ['wWaiting', 'fWaiting']),
 ('wantsLock', 'blocked in pthread_mutex_lock', ['wLock', 'sLock', 'nLock', 'fLock']),
]
PH = {'mNewCreate': 0, 'mNewInsert': 0, 'mNewRet': 1, 'mIdle': 2, 'fLock': 3, 'fSetShut': 4, 'fBcast': 5, 'fAliveChk': 6, 'fWait': 6, 'fWaiting': 6,
      'fUnlock': 7, 'fJoinInit': 8, 'fJoin': 9, 'fCondDestroy': 10, 'fMutDestroy': 11, 'fQueueFree': 12, 'fListFree': 13, 'fFreePool': 14,
      'fRet': 15, 'mDone': 16}
L = ['import Lm.Thpool', '/-!', '# Program-counter classes of the thread-pool transition system', '',
     'Each class is a total function on `Pc` together with one `@[simp]` equation per constructor, so',
     'that `simp` evaluates a class on a concrete program counter and leaves `cls (s.pc u)` alone.',
     '(Written by `tools/mk_thpoolpc.py`; the equations are mechanical.)', '-/', 'namespace Lm.Thpool', '']
for name, doc, mem in BOOL:
    assert set(mem) <= set(ctors), (name, set(mem) - set(ctors))
    L.append('/-- %s -/' % doc)
    L.append('def %s : Pc → Bool' % name)
    L.append('  ' + ' '.join('| .%s' % c for c in ctors if c in mem) + ' => true')
    L.append('  | _ => false')
    for c in ctors:
        L.append('@[simp, grind =] theorem %s_%s : %s .%s = %s := rfl' % (name, c, name, c, 'true' if c in mem else 'false'))
    L.append('')
L.append('/-- how far thread 0 has got (0 for the program counters of other threads) -/')
L.append('def ph : Pc → Nat')
for c in ctors:
    if c in PH: L.append('  | .%s => %d' % (c, PH[c]))
L.append('  | _ => 0')
for c in ctors:
    L.append('@[simp, grind =] theorem ph_%s : ph .%s = %d := rfl' % (c, c, PH.get(c, 0)))
L.append('')
open(os.path.join(V, 'lean', 'Lm', 'Inv', 'ThpoolPc.lean'), 'w').write('\n'.join(L))
print('wrote ThpoolPc.lean with', len(ctors), 'program counters')
