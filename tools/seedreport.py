#!/usr/bin/env python3
"""merge the result of tools/seedrun.py into seeded/<id>/meta.json and print the table for DESIGN.md"""
import json, os, sys, re
V = os.path.dirname(os.path.dirname(os.path.abspath(__file__)))
det = json.load(open(sys.argv[1]))
rows = []
for mid in sorted(os.listdir(os.path.join(V, 'seeded'))):
    mp = os.path.join(V, 'seeded', mid, 'meta.json')
    meta = json.load(open(mp))
    d = det.get(mid)
    if d:
        rep = [re.sub(r'replay=\S*/replays/', 'replay=replays/', l) for l in d.get('reported', [])]
        meta['check_run'] = {'how': 'git -C /repo apply seeded/%s/patch.diff; python3 tools/check.py %s --tier quick (VERIF_SEED=1); git -C /repo checkout -- .' % (mid, meta['property']),
                             'exit': d.get('exit'), 'detected': d.get('detected'), 'with_failing_input': d.get('with_failing_input'), 'reported': rep[:4]}
        json.dump(meta, open(mp, 'w'), indent=1)
    cr = meta.get('check_run', {})
    first = next((l for l in cr.get('reported', []) if l.startswith('# ')), '')
    first = first[2:].replace('|', '/')
    if 'diverge' in first: mech = 'model/implementation divergence'
    elif 'obligation' in first: mech = 'tie A (proof obligation)'
    elif 'clause' in first and 'violated' in first:
        m = re.search(r'clause (\w+)', first)
        mech = 'oracle clause `%s`' % (m.group(1) if m else '?')
    else: mech = first[:60] or '-'
    rows.append('| %s | %s | %s | %s | %s |' % (mid + (' (r2)' if meta.get('round') == 2 else ''), meta['change'], meta['needs_to_manifest'], 'yes' if cr.get('detected') else 'NO', mech + ('' if cr.get('with_failing_input') else ' (`no-failing-input-found`)')))
print('| id | change (compiles, suite green) | what it needs to manifest | caught by the quick check | first mechanism reporting it |')
print('|---|---|---|---|---|')
print('\n'.join(rows))
