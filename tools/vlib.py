"""Common machinery of the checks: Lean build + audit, harness build, differential runs, ddmin,
evidence and verdict output.  One property = one plug-in module in tools/props/."""
import os, sys, re, json, time, subprocess, fcntl, shutil, hashlib, random, glob

VERIF = os.path.dirname(os.path.dirname(os.path.abspath(__file__)))
REPO = os.environ.get('VERIF_REPO', '/repo')
LEAN = os.path.join(VERIF, 'lean')
WORK = os.path.join(VERIF, '.work')
REPLAYS = os.path.join(VERIF, 'replays')
os.environ.setdefault('VERIF_WORK', WORK)
sys.path.insert(0, os.path.join(VERIF, 'extract'))

ALLOWED_AXIOMS = {'propext', 'Classical.choice', 'Quot.sound'}
FORBIDDEN = re.compile(r'\b(sorry|admit|native_decide|bv_decide|implemented_by|unsafe)\b|^\s*axiom\s|maxHeartbeats\s+0')

TRUSTED_BASE = [
    'Lean 4.33 kernel; axioms allowed: propext, Classical.choice, Quot.sound (audited by #print axioms on every theorem, every run); no native_decide/bv_decide/sorry',
    'Spec = my reading of the property text (statements in lean/Lm/Props/<id>.lean)',
    'tie A: extract/*.py (clang-14 JSON AST -> Lean BitVec terms / constants / guard lists), regenerated from /repo on every run',
    'tie B: harness/*.c compiled with /repo/Lib sources (clang-14 ASan+UBSan) vs lmdriver (compiled Lean model) on identical scripts; agreement only on the explored scripts',
    'modelled, not verified: user callbacks (arbitrary script-driven programs), kernel (epoll, pipes, timerfd), malloc/calloc/free, pthreads',
]


def sh(cmd, cwd=None, timeout=None, env=None, input=None):
    p = subprocess.run(cmd, cwd=cwd, capture_output=True, text=True, timeout=timeout, env=env, input=input)
    return p.returncode, p.stdout, p.stderr


class Lock:
    def __init__(self, name):
        os.makedirs(WORK, exist_ok=True)
        self.path = os.path.join(WORK, name + '.lock')

    def __enter__(self):
        self.f = open(self.path, 'w')
        fcntl.flock(self.f, fcntl.LOCK_EX)
        return self

    def __exit__(self, *a):
        fcntl.flock(self.f, fcntl.LOCK_UN)
        self.f.close()


def lake_build(targets):
    """Build Lean targets (library modules or the driver). Returns (ok, log)."""
    with Lock('lake'):
        rc, out, err = sh(['lake', 'build'] + targets, cwd=LEAN, timeout=3000)
    log = out + err
    return rc == 0, log


def lean_errors(log):
    return [l for l in log.splitlines() if l.startswith('error:')]


def theorems_of(relpath):
    """names of the theorems stated in a Props file (with namespace)"""
    txt = open(os.path.join(LEAN, relpath)).read()
    ns = re.findall(r'^namespace\s+(\S+)', txt, re.M)
    ns = ns[0] if ns else ''
    names = re.findall(r'^theorem\s+(\S+)', txt, re.M)
    return [(ns + '.' + n if ns else n) for n in names]


def strip_comments(txt):
    txt = re.sub(r'/-.*?-/', '', txt, flags=re.S)
    txt = re.sub(r'--.*', '', txt)
    return txt


def forbidden_tokens(files):
    hits = []
    for f in files:
        txt = strip_comments(open(f).read())
        for i, line in enumerate(txt.splitlines(), 1):
            if FORBIDDEN.search(line):
                hits.append('%s: %s' % (os.path.relpath(f, VERIF), line.strip()[:120]))
    return hits


def lean_sources_of(module_prefixes):
    """all .lean files the property's theorems can depend on (whole library: cheap and safe)"""
    fs = []
    for root, _, names in os.walk(os.path.join(LEAN, 'Lm')):
        for n in names:
            if n.endswith('.lean'):
                fs.append(os.path.join(root, n))
    return sorted(fs)


def print_axioms(import_mod, theorems, tag):
    """returns {theorem: [axioms]} or raises"""
    os.makedirs(os.path.join(WORK, 'audit'), exist_ok=True)
    path = os.path.join(WORK, 'audit', 'Audit_%s.lean' % tag)
    with open(path, 'w') as f:
        f.write('import %s\n' % import_mod)
        for t in theorems:
            f.write('#print axioms %s\n' % t)
    with Lock('lake'):
        rc, out, err = sh(['lake', 'env', 'lean', path], cwd=LEAN, timeout=1200)
    res = {}
    txt = out + err
    # "'Foo.bar' depends on axioms: [propext, Quot.sound]"  /  "'Foo.bar' does not depend on any axioms"
    for m in re.finditer(r"'([^']+)' depends on axioms: \[([^\]]*)\]", txt, re.S):
        res[m.group(1)] = [a.strip() for a in m.group(2).replace('\n', ' ').split(',') if a.strip()]
    for m in re.finditer(r"'([^']+)' does not depend on any axioms", txt):
        res[m.group(1)] = []
    return rc, res, txt


INC_DIRS = ['Lib/core', 'Lib/core/public', 'Lib/core/fs', 'Lib/core/poll', 'Lib/utils', 'Lib/structs',
            'Lib/structs/public', 'Lib/mem', 'Lib/mem/public', 'Lib/thpool', 'Lib/thpool/public']


def build_harness(name, harness_src, lib_srcs, extra=(), sanitize='address,undefined', defines=()):
    """Compile harness + the named /repo sources from the *current working tree*."""
    out_dir = os.path.join(WORK, 'bin')
    os.makedirs(out_dir, exist_ok=True)
    exe = os.path.join(out_dir, name)
    cmd = ['clang-14', '-std=gnu11', '-D_GNU_SOURCE', '-DFEDEDP_LIBMODULE_VERIF', '-g', '-O1', '-w',
           '-fno-omit-frame-pointer']
    if sanitize:
        cmd += ['-fsanitize=' + sanitize, '-fno-sanitize-recover=all']
    cmd += ['-D' + d for d in defines]
    cmd += ['-I' + os.path.join(REPO, d) for d in INC_DIRS] + ['-I' + os.path.join(VERIF, 'harness')]
    tmp = '%s.%d.tmp' % (exe, os.getpid())
    cmd += ['-o', tmp, os.path.join(VERIF, 'harness', harness_src)]
    cmd += [os.path.join(REPO, s) for s in lib_srcs] + list(extra)
    rc, out, err = sh(cmd, timeout=600)
    if rc == 0:
        # checks may run side by side: each one gets its own copy of the binary, built from the tree as it is now
        exe = '%s.%d' % (exe, os.getpid())
        os.replace(tmp, exe)
        import atexit
        atexit.register(lambda p=exe: os.path.exists(p) and os.remove(p))
    elif os.path.exists(tmp):
        os.remove(tmp)
    return (exe if rc == 0 else None), out + err


def driver_exe():
    return os.path.join(LEAN, '.lake', 'build', 'bin', 'lmdriver')


def split_outputs(text):
    """'## id' separated output -> {id: [lines]}"""
    res, cur = {}, None
    for line in text.splitlines():
        if line.startswith('## '):
            cur = line[3:].strip()
            res[cur] = []
        elif cur is not None:
            res[cur].append(line)
    return res


def scripts_text(scripts):
    out = []
    for sid, lines in scripts:
        out.append('# %s' % sid)
        out.extend(lines)
    return '\n'.join(out) + '\n'


def run_impl(exe, scripts, tag, timeout=600, env=None):
    os.makedirs(os.path.join(WORK, 'run'), exist_ok=True)
    path = os.path.join(WORK, 'run', '%s_%d.ops' % (tag, os.getpid()))
    open(path, 'w').write(scripts_text(scripts))
    e = dict(os.environ)
    e['ASAN_OPTIONS'] = 'detect_leaks=0:abort_on_error=0:exitcode=97:allocator_may_return_null=1'
    e['UBSAN_OPTIONS'] = 'print_stacktrace=1:halt_on_error=1:exitcode=98'
    if env:
        e.update(env)
    rc, out, err = sh([exe, path], timeout=timeout, env=e)
    os.unlink(path)
    return split_outputs(out), err


def run_model(model, scripts, timeout=1200, extra_args=()):
    rc, out, err = sh([driver_exe(), model] + list(extra_args), input=scripts_text(scripts), timeout=timeout)
    return split_outputs(out), err


def first_diff(a, b):
    n = min(len(a), len(b))
    for i in range(n):
        if a[i] != b[i]:
            return i
    return n if len(a) != len(b) else None


def ddmin(lines, test, max_tests=400, budget_s=90):
    """classic ddmin over script lines; test(lines)->True when the failure persists (bounded in tests and in time)"""
    n = 2
    cur = list(lines)
    tests = 0
    t0 = time.time()
    while len(cur) >= 2 and tests < max_tests and time.time() - t0 < budget_s:
        chunk = max(1, len(cur) // n)
        subsets = [cur[i:i + chunk] for i in range(0, len(cur), chunk)]
        reduced = False
        for i in range(len(subsets)):
            comp = [x for j, s in enumerate(subsets) if j != i for x in s]
            tests += 1
            if comp and test(comp):
                cur = comp
                n = max(n - 1, 2)
                reduced = True
                break
        if not reduced:
            if n >= len(cur):
                break
            n = min(len(cur), n * 2)
    return cur


def save_replay(prop, name, content):
    d = os.path.join(REPLAYS, prop)
    os.makedirs(d, exist_ok=True)
    p = os.path.join(d, name)
    with open(p, 'w') as f:
        f.write(content if isinstance(content, str) else json.dumps(content, indent=1))
    return p


def load_known(prop):
    p = os.path.join(VERIF, 'known_findings.json')
    if not os.path.exists(p):
        return []
    return [k for k in json.load(open(p)).get('findings', []) if k['property'] == prop and k.get('status') == 'open']


class Report:
    """collects verdicts of one check run and writes evidence + the VIOLATION lines"""

    def __init__(self, prop, tier, seed):
        self.prop, self.tier, self.seed = prop, tier, seed
        self.t0 = time.time()
        self.violations = []       # (replay_path, text, found_input: bool)
        self.known_hits = []
        self.cov = {'obligations': 0, 'discharged': 0, 'checker_cmd': '', 'trusted_base': TRUSTED_BASE,
                    'evaluations': 0, 'distinct_nontrivial': 0, 'rule': '', 'samples': [], 'exhaustive': False}
        self.notes = []
        self.infra_error = None

    def violation(self, replay, text, found=True):
        self.violations.append((replay, text, found))

    def known(self, kid, text):
        self.known_hits.append((kid, text))

    def finish(self):
        ev = {
            'property_id': self.prop, 'tier': self.tier, 'seed': self.seed, 'level': 'proof',
            'coverage': self.cov,
            'assumptions': TRUSTED_BASE,
            'wall_s': round(time.time() - self.t0, 2),
            'violations': len(self.violations),
        }
        if self.notes:
            ev['coverage']['notes'] = self.notes
        if self.known_hits:
            ev['coverage']['known_findings_printed'] = ['%s: %s' % k for k in self.known_hits]
        os.makedirs(os.path.join(VERIF, 'evidence'), exist_ok=True)
        with open(os.path.join(VERIF, 'evidence', self.prop + '.json'), 'w') as f:
            json.dump(ev, f, indent=1)
        for kid, text in self.known_hits:
            print('KNOWN-FINDING: property=%s %s: %s' % (self.prop, kid, text))
        for replay, text, found in self.violations:
            print('# %s' % text)
            print('VIOLATION property=%s replay=%s%s' % (self.prop, replay, '' if found else ' no-failing-input-found'))
        if self.infra_error:
            print('INFRASTRUCTURE-ERROR: %s' % self.infra_error)
            return 2
        if self.violations:
            return 1
        print('OK property=%s tier=%s obligations=%d/%d scripts=%d nontrivial=%d wall=%.1fs' % (
            self.prop, self.tier, self.cov['discharged'], self.cov['obligations'], self.cov['evaluations'],
            self.cov['distinct_nontrivial'], time.time() - self.t0))
        return 0


def script_hash(lines):
    return hashlib.sha1('\n'.join(lines).encode()).hexdigest()


def proof_stage(rep, props_module, props_file, gen_fn=None, extra_targets=()):
    """Tie A + theorem check + audit.  Returns dict(broken=[reasons], driver_ok=bool)."""
    broken = []
    # 1. regenerate fragments from /repo
    if gen_fn:
        try:
            msg = gen_fn()
            if msg:
                rep.notes.append('extract: ' + msg)
        except Exception as e:  # Unsupported or anything else: a broken obligation, never a default
            broken.append({'kind': 'extractor', 'what': 'extractor could not translate the source fragment',
                           'detail': str(e)[:600]})
    # 2. theorems
    ths = theorems_of(props_file)
    rep.cov['obligations'] = len(ths)
    rep.cov['checker_cmd'] = 'cd lean && lake build %s && lake env lean <Audit: #print axioms …>' % props_module
    ok, log = lake_build([props_module] + list(extra_targets))
    if not ok:
        errs = lean_errors(log)
        broken.append({'kind': 'theorem', 'what': 'lake build %s failed' % props_module,
                       'detail': errs[:8] or log[-800:]})
    else:
        # 3. audit
        hits = forbidden_tokens(lean_sources_of(None))
        if hits:
            broken.append({'kind': 'audit', 'what': 'forbidden token in Lean sources', 'detail': hits[:10]})
        rc, ax, txt = print_axioms(props_module, ths, rep.prop)
        bad = {}
        for t in ths:
            short = t
            if t not in ax:
                bad[t] = 'no #print axioms output'
            elif set(ax[t]) - ALLOWED_AXIOMS:
                bad[t] = ax[t]
        if bad:
            broken.append({'kind': 'audit', 'what': 'axiom audit failed', 'detail': bad})
        rep.cov['discharged'] = len(ths) - len(bad) if not hits else 0
        rep.cov['axioms'] = {t.split('.')[-1]: ax.get(t) for t in ths}
    # 4. driver
    dok, dlog = lake_build(['lmdriver'])
    if not dok:
        broken.append({'kind': 'driver', 'what': 'lmdriver does not build (model no longer compiles against the regenerated fragments)',
                       'detail': lean_errors(dlog)[:8]})
    if rep.tier == 'thorough' and ok:
        with Lock('lake'):
            rc, out, err = sh(['lake', 'env', 'leanchecker', props_module], cwd=LEAN, timeout=3000)
        rep.cov['leanchecker'] = 'ok' if rc == 0 else ('failed: ' + (out + err)[-300:])
        if rc != 0:
            broken.append({'kind': 'leanchecker', 'what': 'leanchecker rejected ' + props_module, 'detail': (out + err)[-600:]})
    return {'broken': broken, 'driver_ok': dok}
