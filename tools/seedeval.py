#!/usr/bin/env python3
"""Evaluate seeded breaking changes (from independent sub-agents) against the checks.

  seedeval.py confirm <outdir> [ids…]   confirm each mutation in a scratch worktree: the unedited suite passes with it, its
                                         demonstration passes without it and fails with it  -> <outdir>/<id>/confirm.json
  seedeval.py run <verifdir> <outdir> [ids…]   apply each confirmed mutation to the scratch worktree and run the property's quick check
                                         from <verifdir> with VERIF_REPO pointing at it -> <outdir>/<id>/check.json
Mutations live in /tmp/mut/out/<prop>/mut{A,B}.diff (+ demo{A,B}.c)."""
import os, sys, json, subprocess, glob, re, shutil, time

SRC = os.environ.get('SEED_SRC', '/tmp/mut/out')
WT = os.environ.get('SEED_WT', '/tmp/mut/eval')
INC = ['Lib/core', 'Lib/core/public', 'Lib/core/fs', 'Lib/core/poll', 'Lib/utils', 'Lib/structs', 'Lib/structs/public',
       'Lib/mem', 'Lib/mem/public', 'Lib/thpool', 'Lib/thpool/public']
LIBC = ['Lib/core/*.c', 'Lib/core/fs/fs_noop.c', 'Lib/core/poll/epoll.c', 'Lib/core/poll/cmn_linux.c', 'Lib/utils/*.c',
        'Lib/structs/*.c', 'Lib/mem/*.c', 'Lib/thpool/*.c']


def sh(cmd, cwd=None, timeout=1800, env=None):
    p = subprocess.run(cmd, cwd=cwd, shell=isinstance(cmd, str), capture_output=True, text=True, timeout=timeout, env=env)
    return p.returncode, p.stdout + p.stderr


def ensure_wt():
    if not os.path.isdir(WT):
        sh(['git', '-C', '/repo', 'worktree', 'add', '--detach', WT, 'HEAD'])
    sh('git checkout -- . && git clean -fdq -e _build -e _cfg', cwd=WT)
    if not os.path.exists(os.path.join(WT, '_build', 'build.ninja')):
        sh('cmake -G Ninja -S . -B _build -DBUILD_TESTS=ON -DCMAKE_BUILD_TYPE=RelWithDebInfo', cwd=WT)


def suite():
    rc, out = sh('cmake --build _build && ctest --test-dir _build -j8 --timeout 900', cwd=WT)
    m = re.search(r'(\d+)% tests passed, (\d+) tests failed out of (\d+)', out)
    return rc == 0 and m is not None and m.group(2) == '0', (m.group(0) if m else out[-400:])


def demo(prop, which, tag, src=None, sanitizer='address'):
    """compile the demonstration against the worktree's current sources and run it; (exit code, tail of output)"""
    src = src or os.path.join(SRC, prop, 'demo%s.c' % which)
    os.makedirs('/tmp/mut', exist_ok=True)
    exe = '/tmp/mut/demo_%s_%s_%s' % (prop, which, tag)
    files = []
    for g in LIBC:
        files += sorted(glob.glob(os.path.join(WT, g)))
    extra = []
    txt = open(src).read()
    cmd = ['gcc', '-std=gnu11', '-g', '-O1', '-fsanitize=' + sanitizer, '-fno-omit-frame-pointer', '-D_GNU_SOURCE', '-DLIBMODULE_LOG_CTX=CORE', '-w'] + \
          ['-I' + os.path.join(WT, i) for i in INC] + [src] + files + extra + ['-lpthread', '-ldl', '-o', exe]
    rc, out = sh(cmd, cwd=WT)
    if rc != 0:
        return None, 'COMPILE FAILED: ' + out[-1500:]
    env = dict(os.environ, LM_ROOT=WT, ASAN_OPTIONS='detect_leaks=1:exitcode=66', TSAN_OPTIONS='exitcode=66')
    try:
        rc, out = sh([exe], cwd=WT, timeout=300, env=env)
    except subprocess.TimeoutExpired:
        rc, out = 124, 'TIMEOUT'
    os.remove(exe)
    return rc, out[-1200:]


def confirm(outdir, ids):
    ensure_wt()
    ok, msg = suite()
    print('baseline suite:', ok, msg, flush=True)
    for prop in sorted(os.listdir(SRC)):
        for which in 'AB':
            mid = '%s-%s' % (prop, which)
            if ids and mid not in ids and prop not in ids:
                continue
            diff = os.path.join(SRC, prop, 'mut%s.diff' % which)
            if not os.path.exists(diff):
                continue
            d = os.path.join(outdir, mid)
            os.makedirs(d, exist_ok=True)
            res = {'id': mid, 'property': prop}
            sh('git checkout -- .', cwd=WT)
            res['demo_clean_rc'], res['demo_clean_out'] = demo(prop, which, 'clean')
            rc, out = sh(['git', 'apply', diff], cwd=WT)
            res['applies'] = rc == 0
            if rc == 0:
                res['suite_passes_with_mutation'], res['suite_msg'] = suite()
                res['demo_mut_rc'], res['demo_mut_out'] = demo(prop, which, 'mut')
            sh('git checkout -- .', cwd=WT)
            res['confirmed'] = bool(res.get('applies') and res.get('suite_passes_with_mutation') and res.get('demo_clean_rc') == 0
                                    and res.get('demo_mut_rc') not in (0, None))
            json.dump(res, open(os.path.join(d, 'confirm.json'), 'w'), indent=1)
            print(mid, 'confirmed' if res['confirmed'] else 'NOT CONFIRMED', 'clean rc', res.get('demo_clean_rc'), 'mut rc', res.get('demo_mut_rc'),
                  'suite', res.get('suite_passes_with_mutation'), flush=True)
    suite()


def run(verifdir, outdir, ids, tier='quick', props_override=None):
    ensure_wt()
    for mid in sorted(os.listdir(outdir)):
        if ids and mid not in ids and mid.split('-')[0] not in ids:
            continue
        cj = os.path.join(outdir, mid, 'confirm.json')
        if not os.path.exists(cj) or not json.load(open(cj)).get('confirmed'):
            continue
        prop, which = mid.split('-')
        sh('git checkout -- .', cwd=WT)
        rc, out = sh(['git', 'apply', os.path.join(SRC, prop, 'mut%s.diff' % which)], cwd=WT)
        res = {'id': mid, 'checks': {}}
        for p in (props_override or [prop]):
            t0 = time.time()
            env = dict(os.environ, VERIF_REPO=WT)
            rc, out = sh(['python3', 'tools/check.py', p, '--tier', tier], cwd=verifdir, timeout=3600, env=env)
            lines = [l for l in out.splitlines() if l.startswith(('VIOLATION', 'OK ', '# ', 'KNOWN', 'INFRA'))]
            res['checks'][p] = {'rc': rc, 'lines': lines[:8], 'wall': round(time.time() - t0, 1)}
            print(mid, p, 'rc=%d' % rc, ' | '.join(l[:160] for l in lines[:3]), flush=True)
        sh('git checkout -- .', cwd=WT)
        json.dump(res, open(os.path.join(outdir, mid, 'check_%s.json' % tier), 'w'), indent=1)


def confirm_seeded(ids):
    """re-confirm the kept changes under /verif/seeded against /repo's current HEAD: the patch applies, the unedited suite
    passes with it, the demonstration passes without it and fails with it -> meta.json 'confirmed'"""
    seeded = os.path.join(os.path.dirname(os.path.dirname(os.path.abspath(__file__))), 'seeded')
    ensure_wt()
    head = sh(['git', '-C', '/repo', 'rev-parse', '--short', 'HEAD'])[1].strip()
    sh(['git', 'checkout', '-q', '--detach', head], cwd=WT)
    ok, msg = suite()
    print('baseline suite at', head, ':', ok, msg, flush=True)
    for mid in sorted(os.listdir(seeded)):
        if ids and mid not in ids and mid.split('-')[0] not in ids:
            continue
        d = os.path.join(seeded, mid)
        mp = os.path.join(d, 'meta.json')
        meta = json.load(open(mp))
        prop = meta['property']
        san = meta.get('demo_sanitizer', 'address')
        sh('git checkout -- .', cwd=WT)
        res = {}
        res['demo_exit_without_patch'], out0 = demo(prop, mid[-1], 'clean', src=os.path.join(d, 'demo.c'), sanitizer=san)
        rc, out = sh(['git', 'apply', os.path.join(d, 'patch.diff')], cwd=WT)
        res['applies_to_repo_head'] = rc == 0
        if rc == 0:
            res['unedited_suite_passes_with_patch'], res['suite'] = suite()
            res['demo_exit_with_patch'], out1 = demo(prop, mid[-1], 'mut', src=os.path.join(d, 'demo.c'), sanitizer=san)
        sh('git checkout -- .', cwd=WT)
        res['repo_head'] = head
        res['how'] = ('tools/seedeval.py confirm-seeded: scratch worktree of /repo HEAD; cmake --build + ctest (2 entries = 206 cases) with the patch applied '
                      'alone; demo compiled (gcc -fsanitize=%s, all Lib/**.c) and run without and with the patch' % san)
        good = bool(res.get('applies_to_repo_head') and res.get('unedited_suite_passes_with_patch') and res.get('demo_exit_without_patch') == 0
                    and res.get('demo_exit_with_patch') not in (0, None))
        res['all_confirmed'] = good
        meta['confirmed'] = res
        json.dump(meta, open(mp, 'w'), indent=1)
        print(mid, 'confirmed' if good else 'NOT CONFIRMED', res, flush=True)
    suite()


if __name__ == '__main__':
    if sys.argv[1] == 'confirm':
        confirm(sys.argv[2], sys.argv[3:])
    elif sys.argv[1] == 'confirm-seeded':
        confirm_seeded(sys.argv[2:])
    elif sys.argv[1] == 'run':
        run(sys.argv[2], sys.argv[3], sys.argv[4:])
